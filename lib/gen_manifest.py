#!/usr/bin/env python3
"""regenerates /verif/MANIFEST.json from lib/plans.py and lib/manifest_meta.py"""
import json, os, sys
HERE = os.path.dirname(os.path.abspath(__file__))
sys.path.insert(0, HERE)
from plans import PLANS
from manifest_meta import META, NOT_APPLICABLE, HOOK_COMMITS, FIX_COMMITS

checks = []
for pid in sorted(PLANS):
    m = META[pid]
    checks.append({
        "property_id": pid,
        "quick_cmd": "./check %s --tier quick" % pid,
        "thorough_cmd": "./check %s --tier thorough" % pid,
        "evidence_file": "/verif/evidence/%s.json" % pid,
        "replay_cmd_template": "./check --replay {path}",
        "engine": m["engine"],
        "level_claimed": {"category": PLANS[pid]["level"], "text": m["level_text"], "design_ref": m["design_ref"]},
        "level_note": m["level_note"],
        "technique": m["technique"],
    })
manifest = {
    "version": 1,
    "setup_cmd": "./setup.sh",
    "hooks": {
        "guard": "--cfg exmex_verif",
        "enable": "RUSTFLAGS=\"--cfg exmex_verif\" (set by ./check for cargo kani and for the native replay build); Verus reads /repo source text and needs no hook",
        "baseline_off_cmd": "cd /repo && cargo test --workspace --no-fail-fast --offline",
        "source_commits": HOOK_COMMITS,
        "add_only": True,
    },
    "engines": [
        {"name": "verus-weave", "path": "/verif/extract", "serves_properties": [p for p in sorted(PLANS) if PLANS[p].get("verus")],
         "kind_free_text": "mechanical extraction (cut/rewrite/weave/scan) of /repo functions into one Verus file per unit + contracts/*.vrs; Verus/Z3 discharges every obligation"},
        {"name": "kani-contracts", "path": "/verif/kani", "serves_properties": [p for p in sorted(PLANS) if PLANS[p].get("kani")],
         "kind_free_text": "harness-level function contracts (assume requires / call / assert ensures) on the real crate compiled by Kani, CBMC back end; complete where loop-free over the full operand domain, bounded otherwise"},
        {"name": "native-replay", "path": "/verif/replay", "serves_properties": sorted(PLANS),
         "kind_free_text": "the same harness bodies run natively on the verifier's counterexample bytes against /repo"},
    ],
    "checks": checks,
    "not_applicable": [{"property_id": p, "reason": r} for p, r in sorted(NOT_APPLICABLE.items()) if p not in PLANS],
    "notes": "Contract-based deductive verification (Verus + Kani). See DESIGN.md (section 12 = as built). exit 2 of ./check = undecided (never an alarm). "
             "Genuine defects repaired in /repo by fix: commits " + ", ".join(FIX_COMMITS) + " (KNOWN_FINDINGS.txt, findings/before_fix/). "
             "Seeded breaking changes and which check catches them: seeded/*/meta.json, DESIGN.md section 12.9.",
}
json.dump(manifest, open(os.path.join(os.path.dirname(HERE), "MANIFEST.json"), "w"), indent=1)
print("MANIFEST.json: %d checks, %d not applicable" % (len(checks), len(manifest["not_applicable"])))
