"""shared helpers for the /verif check driver"""
import json
import os
import subprocess
import sys
import time

VERIF = os.path.dirname(os.path.dirname(os.path.abspath(__file__)))
REPO = os.environ.get("VERIF_REPO", "/repo")
BUILD = os.path.join(VERIF, ".build")
EVIDENCE = os.path.join(VERIF, "evidence")
REPLAYS = os.path.join(VERIF, "replays")
KNOWN_FINDINGS = os.path.join(VERIF, "KNOWN_FINDINGS.txt")
GUARD = "--cfg exmex_verif"
NCPU = os.cpu_count() or 4

# memory / time policy (DESIGN §6): every solver process runs under a hard address-space limit
KANI_VMEM_KB = 28 * 1024 * 1024      # per process (rustc, cbmc)
VERUS_TIMEOUT_S = 300


class Undecided(Exception):
    """the check could not decide (lost anchor, tool limit, timeout, OOM ...) -> exit 2"""


def env_offline(extra=None):
    e = dict(os.environ)
    e["CARGO_NET_OFFLINE"] = "true"
    e.setdefault("GOPROXY", "off")
    e.setdefault("PIP_NO_INDEX", "1")
    if extra:
        e.update(extra)
    return e


def run(cmd, cwd=None, env=None, timeout=None, shell=False):
    t0 = time.time()
    try:
        p = subprocess.run(cmd, cwd=cwd, env=env, timeout=timeout, shell=shell,
                           stdout=subprocess.PIPE, stderr=subprocess.PIPE, text=True, errors="replace")
        return p.returncode, p.stdout, p.stderr, time.time() - t0
    except subprocess.TimeoutExpired as e:
        out = e.stdout.decode(errors="replace") if isinstance(e.stdout, bytes) else (e.stdout or "")
        err = e.stderr.decode(errors="replace") if isinstance(e.stderr, bytes) else (e.stderr or "")
        return -9, out, err + "\nTIMEOUT after %ss" % timeout, time.time() - t0


def log(msg):
    print(msg, flush=True)


def write_json(path, obj):
    os.makedirs(os.path.dirname(path), exist_ok=True)
    tmp = path + ".tmp"
    with open(tmp, "w") as f:
        json.dump(obj, f, indent=1, sort_keys=False)
        f.write("\n")
    os.replace(tmp, path)


def repo_rev():
    rc, out, _, _ = run(["git", "-C", REPO, "rev-parse", "HEAD"])
    rc2, out2, _, _ = run(["git", "-C", REPO, "status", "--porcelain", "--untracked-files=no"])
    return {"head": out.strip() if rc == 0 else "?", "dirty": bool(out2.strip())}
