"""run Kani harnesses of /verif/kani against /repo's working tree and parse the results"""
import os
import re
import shlex

from common import (VERIF, BUILD, GUARD, NCPU, KANI_VMEM_KB, Undecided, env_offline, run, log)

KANI_DIR = os.path.join(VERIF, "kani")
TARGET = os.path.join(BUILD, "kani-target")
FILTER = re.compile(r"^(warning|\s*\||\s*=|\s*-->|\s*$)")


def _full(h):
    return h + "::proof"


def _cmd(harnesses, jobs, timeout_s, extra_cfg, playback=False):
    flags = GUARD + "".join(" --cfg %s" % c for c in extra_cfg)
    args = ["cargo", "kani", "-Z", "stubbing", "-Z", "unstable-options", "--harness-timeout", "%ds" % timeout_s,
            "--no-overflow-checks", "--target-dir", TARGET, "--exact"]
    if playback:
        args += ["-Z", "concrete-playback", "--concrete-playback=print"]
    else:
        args += ["-j", str(max(2, jobs)), "--output-format", "terse"]
    for h in harnesses:
        args += ["--harness", _full(h)]
    sh = "ulimit -v %d; exec %s" % (KANI_VMEM_KB, " ".join(shlex.quote(a) for a in args))
    return sh, flags


def _split_blocks(out):
    """-> {harness: [lines]} from terse -j output (also handles un-prefixed sequential output)"""
    cur_of_thread = {}
    blocks = {}
    active = None
    for line in out.split("\n"):
        m = re.match(r"^(?:Thread (\d+): )?Checking harness (\S+?)\.\.\.", line)
        if m:
            t = m.group(1) or "0"
            h = m.group(2)
            cur_of_thread[t] = h
            blocks.setdefault(h, [])
            active = h if m.group(1) is None else None
            continue
        m = re.match(r"^Thread (\d+): ?(.*)$", line)
        if m:
            t = m.group(1)
            h = cur_of_thread.get(t)
            if h is not None:
                blocks[h].append(m.group(2))
                active = h
            continue
        if line.startswith("Manual Harness Summary") or line.startswith("Complete - "):
            active = None
            continue
        if active is not None:
            blocks[active].append(line)
    return blocks


def _parse_block(lines):
    text = "\n".join(lines)
    r = {"status": "undecided", "checks": 0, "failed": 0, "failed_checks": [], "covers": None, "time_s": None,
         "stub_format": "Stub: std :: fmt :: format" in text, "reason": None}
    m = re.search(r"\*\* (\d+) of (\d+) failed", text)
    if m:
        r["failed"], r["checks"] = int(m.group(1)), int(m.group(2))
    m = re.search(r"\*\* (\d+) of (\d+) cover properties satisfied", text)
    if m:
        r["covers"] = (int(m.group(1)), int(m.group(2)))
    m = re.search(r"Verification Time: ([0-9.]+)s", text)
    if m:
        r["time_s"] = float(m.group(1))
    for m in re.finditer(r"Failed Checks: (.*)\n\s*File: \"([^\"]*)\", line (\d+), in (\S+)", text):
        r["failed_checks"].append({"description": m.group(1).strip().strip('"'), "file": m.group(2), "line": int(m.group(3)), "function": m.group(4)})
    for m in re.finditer(r"Failed Checks: (.*)\n(?!\s*File:)", text):
        r["failed_checks"].append({"description": m.group(1).strip().strip('"'), "file": "", "line": 0, "function": ""})
    if "VERIFICATION:- SUCCESSFUL" in text:
        r["status"] = "success"
        if r["covers"] and r["covers"][0] != r["covers"][1]:
            r["status"] = "undecided"
            r["reason"] = "vacuity guard: only %d of %d cover properties satisfied" % r["covers"]
        if not r["stub_format"]:
            r["status"] = "undecided"
            r["reason"] = "std::fmt::format stub line missing"
    elif "VERIFICATION:- FAILED" in text:
        real = [c for c in r["failed_checks"] if not re.search(r"unwinding assertion|not (currently )?supported|unsupported|Kani does not support", c["description"], re.I)]
        tool = [c for c in r["failed_checks"] if c not in real]
        if "CBMC timed out" in text:
            r["reason"] = "CBMC timed out"
        elif "CBMC failed" in text and not r["failed_checks"]:
            r["reason"] = "CBMC failed (out of memory or internal error): " + text[-300:].replace("\n", " | ")
        elif real:
            r["status"] = "failure"
            r["failed_checks"] = real
        elif tool:
            r["reason"] = "tool limit: " + "; ".join(c["description"] for c in tool)
        else:
            r["reason"] = "FAILED without failed checks: " + text[-300:].replace("\n", " | ")
    else:
        r["reason"] = "no verdict in Kani output: " + text[-300:].replace("\n", " | ")
    return r


def run_harnesses(harnesses, timeout_s=600, jobs=None, extra_cfg=()):
    """-> {harness: result}; raises Undecided when Kani itself cannot be run / compiled"""
    if not harnesses:
        return {}, 0.0
    jobs = jobs or min(NCPU, len(harnesses))
    sh, flags = _cmd(harnesses, jobs, timeout_s, extra_cfg)
    env = env_offline({"RUSTFLAGS": flags})
    wall = timeout_s * (1 + len(harnesses) // max(1, jobs)) + 900
    rc, out, err, dt = run(["bash", "-c", sh], cwd=KANI_DIR, env=env, timeout=wall)
    os.makedirs(os.path.join(BUILD, "logs"), exist_ok=True)
    with open(os.path.join(BUILD, "logs", "kani-last.log"), "w") as f:
        f.write("$ RUSTFLAGS=%r %s\n" % (flags, sh))
        f.write("\n".join(l for l in (out + "\n" + err).split("\n") if not FILTER.match(l)))
    allout = out + "\n" + err
    if re.search(r"^error(\[E\d+\])?:", allout, re.M) and "Checking harness" not in allout:
        msg = "\n".join(l for l in allout.split("\n") if l.startswith("error") or "-->" in l)[:1500]
        raise Undecided("kani: harness crate or /repo does not compile with hooks on:\n" + msg)
    blocks = _split_blocks(allout)
    results = {}
    for h in harnesses:
        b = blocks.get(_full(h)) or blocks.get("exmex_contracts::" + _full(h))
        if b is None:
            results[h] = {"status": "undecided", "reason": "harness not run by Kani (no output block)", "checks": 0, "failed": 0,
                          "failed_checks": [], "covers": None, "time_s": None, "stub_format": False}
        else:
            results[h] = _parse_block(b)
    return results, dt


def playback(harness, timeout_s=600, extra_cfg=()):
    """re-run one failing harness sequentially with concrete playback; -> list of
    {check, bytes(hex string), vectors}"""
    sh, flags = _cmd([harness], 1, timeout_s, extra_cfg, playback=True)
    env = env_offline({"RUSTFLAGS": flags})
    rc, out, err, dt = run(["bash", "-c", sh], cwd=KANI_DIR, env=env, timeout=timeout_s + 900)
    allout = out + "\n" + err
    tests = []
    for m in re.finditer(r"/// Check for `(\w+)`: \"(.*?)\"\n(.*?)kani::concrete_playback_run", allout, re.S):
        desc = m.group(2).strip().strip('"')
        vecs = re.findall(r"vec!\[([0-9,\s]*)\]", m.group(3))
        # first match is the outer vec![ ... ] opener only when it is non-empty; filter by content
        byte_vecs = []
        for v in vecs:
            v = v.strip()
            if v == "":
                byte_vecs.append([])
                continue
            byte_vecs.append([int(x) for x in v.split(",") if x.strip() != ""])
        flat = [b for v in byte_vecs for b in v]
        tests.append({"check": desc, "kind": m.group(1), "hex": "".join("%02x" % b for b in flat), "vectors": byte_vecs})
    return tests, allout
