"""per-property verification plans: which Verus units and which Kani harnesses decide a property"""

A_FMT = "std::fmt::format is stubbed in every Kani harness: error-message text is not verified, only that an error value is produced"
A_NOOVF = "Kani runs with --no-overflow-checks (CBMC's own float-NaN/overflow instrumentation off); rustc's integer-overflow, shift, bounds and unwrap panics stay in the program and are checked"
A_CBMC = "CBMC's bit-precise model of Rust integer/float primitives and intrinsics is trusted"
A_VERUS = "Verus 0.2026.09.13 + Z3 are trusted; usize is 64 bit (global size_of usize == 8)"

PLANS = {}

PLANS["C14"] = {
    "level": "proof",
    "verus": ["u123"],
    "kani": {
        "quick": ["u1::intrinsics_spec", "u1::word_tracker", "u1::slice_tracker_3", "u1::eval_binary_orders_4", "u1::eval_binary_orders_4_slice"],
        "thorough": ["u1::intrinsics_spec", "u1::word_tracker", "u1::slice_tracker_3", "u1::slice_tracker_4", "u1::eval_binary_orders_4",
                     "u1::eval_binary_orders_4_slice", "u1::eval_binary_orders_6"],
    },
    "kani_timeout": {"quick": 600, "thorough": 1800},
    "roles": {
        "u1::intrinsics_spec": "discharges the three assume_specification clauses of the Verus unit for every usize (complete, loop-free)",
        "u1::word_tracker": "cross-check of the word tracker on the unextracted code, all usize x idx<64 (complete)",
        "u1::slice_tracker_3": "cross-check of the slice tracker on the unextracted code, 1..=3 words (bounded)",
        "u1::slice_tracker_4": "cross-check of the slice tracker on the unextracted code, 1..=4 words (bounded)",
        "u1::eval_binary_orders_4": "cross-check + counterexample generator: all orders of 4 operators, word tracker (bounded)",
        "u1::eval_binary_orders_4_slice": "cross-check + counterexample generator: all orders of 4 operators, slice tracker (bounded)",
        "u1::eval_binary_orders_6": "cross-check: all orders of 6 operators (bounded)",
    },
    "cex_map": {
        "word_get_previous": ["u1::word_tracker"], "word_get_next": ["u1::word_tracker"], "ignore": ["u1::word_tracker", "u1::slice_tracker_3"],
        "max_len": ["u1::word_tracker", "u1::slice_tracker_3"], "consume_next": ["u1::eval_binary_orders_4"],
        "slice_get_previous": ["u1::slice_tracker_3"], "slice_get_next": ["u1::slice_tracker_3"], "slice_ignore": ["u1::slice_tracker_3"],
        "eval_binary": ["u1::eval_binary_orders_4", "u1::eval_binary_orders_4_slice"], "eval_numbers": [],
    },
    "cex_native": {
        "eval_numbers": [("u1::eval_numbers_boundary_65", ["00", "01"]), ("u1::eval_numbers_boundary_66", ["00", "01"]), ("u1::eval_numbers_boundary_64", ["00", "01"])],
    },
    "trusted_base": [
        A_VERUS,
        "assume_specification for usize::rotate_right / leading_ones / trailing_ones (each re-checked for all usize by Kani harness u1::intrinsics_spec; residual trust: CBMC's model of the intrinsics)",
        "assume_specification for core::mem::take (returns the old value, leaves a fixed default)",
        "A1: OperateBinary::apply is a deterministic function of its arguments (spec fn ap)",
        "one generated delegation `<[usize] as NumberTracker>::get_previous { slice_get_previous(self, idx) }` is external_body (Verus quirk, DESIGN §2.2 R5); lemma_slice_delegation proves its contract follows from the hoisted function's",
        "generated opaque stand-ins FlatOp<T> / ExError for eval_numbers' signature (fn-pointer fields are outside Verus)",
        "rewrites R1,R2,R3,R5,R6 of extract/weave.py preserve behaviour (R1/R5 cross-checked by the Kani harnesses, which run the unextracted code)",
    ],
    "assumptions": [A_VERUS, A_CBMC, A_FMT, A_NOOVF,
                    "SmallVec behaves as Vec (R3) in eval_numbers",
                    "max_len of a slice tracker does not overflow (slices of >= 2^58 words are not considered)"],
    "not_covered": [
        "second tracker-selection call site deep.rs eval_relaxed (always slice tracker) — see unit u3b if present",
        "the inlined copy of the reduction loop in flat.rs flatex_to_deepex",
        "that prioritized_indices_* return a permutation (pre-condition of eval_binary; decided boundedly under C01)",
    ],
    "bounds": {"all": ["Verus part: none (all chain lengths, all orders, all word counts)",
                       "Kani cross-checks: slice tracker <= 3 (quick) / 4 (thorough) words; eval_binary 4 (quick) / 6 (thorough) operators"]},
    "explanation": "C14 is eval_binary's post-condition (result == reference nearest-live-neighbour reduction for every order and length) plus the tracker's representation invariant; Verus discharges it on text extracted from /repo each run.",
}
