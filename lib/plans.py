"""per-property verification plans: which Verus units and which Kani harnesses decide a property"""

A_FMT = "std::fmt::format is stubbed in every Kani harness: error-message text is not verified, only that an error value is produced"
A_NOOVF = "Kani runs with --no-overflow-checks (CBMC's own float-NaN/overflow instrumentation off); rustc's integer-overflow, shift, bounds and unwrap panics stay in the program and are checked"
A_CBMC = "CBMC's bit-precise model of Rust integer/float primitives and intrinsics is trusted"
A_VERUS = "Verus 0.2026.09.13 + Z3 are trusted; usize is 64 bit (global size_of usize == 8)"

PLANS = {}

PLANS["C14"] = {
    "level": "proof",
    "verus": ["u123"],
    "kani": {
        "quick": ["u1::intrinsics_spec", "u1::word_tracker", "u1::slice_tracker_3", "u1::eval_binary_orders_4", "u1::eval_binary_orders_4_slice"],
        "thorough": ["u1::intrinsics_spec", "u1::word_tracker", "u1::slice_tracker_3", "u1::slice_tracker_4", "u1::eval_binary_orders_4",
                     "u1::eval_binary_orders_4_slice", "u1::eval_binary_orders_6"],
    },
    "kani_timeout": {"quick": 600, "thorough": 1800},
    "roles": {
        "u1::intrinsics_spec": "discharges the three assume_specification clauses of the Verus unit for every usize (complete, loop-free)",
        "u1::word_tracker": "cross-check of the word tracker on the unextracted code, all usize x idx<64 (complete)",
        "u1::slice_tracker_3": "cross-check of the slice tracker on the unextracted code, 1..=3 words (bounded)",
        "u1::slice_tracker_4": "cross-check of the slice tracker on the unextracted code, 1..=4 words (bounded)",
        "u1::eval_binary_orders_4": "cross-check + counterexample generator: all orders of 4 operators, word tracker (bounded)",
        "u1::eval_binary_orders_4_slice": "cross-check + counterexample generator: all orders of 4 operators, slice tracker (bounded)",
        "u1::eval_binary_orders_6": "cross-check: all orders of 6 operators (bounded)",
    },
    "cex_map": {
        "word_get_previous": ["u1::word_tracker"], "word_get_next": ["u1::word_tracker"], "usize::ignore": ["u1::word_tracker"], "[usize]::ignore": ["u1::slice_tracker_3"],
        "usize::max_len": ["u1::word_tracker"], "[usize]::max_len": ["u1::slice_tracker_3"], "NumberTracker::consume_next": ["u1::eval_binary_orders_4"],
        "slice_get_previous": ["u1::slice_tracker_3"], "slice_get_next": ["u1::slice_tracker_3"], "slice_ignore": ["u1::slice_tracker_3"],
        "eval_binary": ["u1::eval_binary_orders_4", "u1::eval_binary_orders_4_slice"], "eval_numbers": [], "deep_eval_relaxed_tracker_site": [], "flatex_to_deepex_tracker_loop": [],
    },
    # functions whose whole contract is also discharged by a complete Kani harness on the unextracted code
    "complete_cross_checks": {"word_get_previous": ["u1::word_tracker"], "word_get_next": ["u1::word_tracker"], "usize::ignore": ["u1::word_tracker"],
                              "usize::max_len": ["u1::word_tracker"]},
    "cex_native": {
        "eval_numbers": [("u1::eval_numbers_boundary_65", ["00", "01"]), ("u1::eval_numbers_boundary_66", ["00", "01"]), ("u1::eval_numbers_boundary_64", ["00", "01"]), ("u1::chain_sizes", ["410000", "810000", "820000", "ff0700", "000800", "010800", "410800", "420800", "430800", "c40900"])],
        "deep_eval_relaxed_tracker_site": [("u1::deep_eval_boundary", ["40", "41", "42", "7f", "80", "81"]), ("u1::chain_sizes", ["410001", "810001", "820001", "ff0701", "000801", "010801", "410801", "420801", "430801", "c40901"])],
        "slice_get_previous": [("u1::chain_sizes", ["410000", "810000", "820000", "ff0700", "000800", "010800", "410800", "420800", "430800", "c40900"] + ["410001", "810001", "820001", "ff0701", "000801", "010801", "410801", "420801", "430801", "c40901"])], "slice_get_next": [("u1::chain_sizes", ["410000", "810000", "820000", "ff0700", "000800", "010800", "410800", "420800", "430800", "c40900"])], "slice_ignore": [("u1::chain_sizes", ["410000", "810000", "820000", "ff0700", "000800", "010800", "410800", "420800", "430800", "c40900"])],
        "eval_binary": [("u1::chain_sizes", ["410000", "810000", "820000", "ff0700", "000800", "010800", "410800", "420800", "430800", "c40900"])],
        "flatex_to_deepex_tracker_loop": [("u1::flat2deep_boundary", ["4000", "4100", "413f", "4140", "4200", "7f7e", "8000", "807f", "8100", "c100", "c1c0"]), ("u1::chain_sizes", ["410002", "810002", "820002", "ff0702", "000802", "010802", "410802", "420802", "430802", "c40902"])],
    },
    "trusted_base": [
        A_VERUS,
        "assume_specification for usize::rotate_right / leading_ones / trailing_ones (each re-checked for all usize by Kani harness u1::intrinsics_spec; residual trust: CBMC's model of the intrinsics)",
        "assume_specification for core::mem::take (returns the old value, leaves a fixed default)",
        "A1: OperateBinary::apply is a deterministic function of its arguments (spec fn ap)",
        "one generated delegation `<[usize] as NumberTracker>::get_previous { slice_get_previous(self, idx) }` is external_body (Verus quirk, DESIGN §2.2 R5); lemma_slice_delegation proves its contract follows from the hoisted function's",
        "generated opaque stand-ins FlatOp<T> / ExError for eval_numbers' signature (fn-pointer fields are outside Verus)",
        "rewrites R1,R2,R3,R5,R6 of extract/weave.py preserve behaviour (R1/R5 cross-checked by the Kani harnesses, which run the unextracted code)",
    ],
    "assumptions": [A_VERUS, A_CBMC, A_FMT, A_NOOVF,
                    "SmallVec behaves as Vec (R3) in eval_numbers",
                    "max_len of a slice tracker does not overflow (slices of >= 2^58 words are not considered)"],
    "not_covered": [
        "that prioritized_indices_* return a permutation (pre-condition of eval_binary; decided boundedly under C01)",
    ],
    "bounds": {"all": ["Verus part: none (all chain lengths, all orders, all word counts)",
                       "Kani cross-checks: slice tracker <= 3 (quick) / 4 (thorough) words; eval_binary 4 (quick) / 6 (thorough) operators"]},
    "explanation": "C14 is eval_binary's post-condition (result == reference nearest-live-neighbour reduction for every order and length) plus the tracker's representation invariant; Verus discharges it on text extracted from /repo each run.",
}


# ---------------------------------------------------------------------------------------------
U7_FUNCTIONAL = """b_add b_sub b_mul b_div b_min b_max b_rem b_bitwise_or b_bitwise_and b_bitwise_xor b_left_shift b_right_shift
 b_pow b_pow_i64 b_atan2 b_and_or cmp_eq_ord if_else unary_plus_log_consts conv_to_bool
 u_sin u_cos u_tan u_asin u_acos u_atan u_sinh u_cosh u_tanh u_asinh u_acosh u_atanh u_floor u_ceil u_trunc
 u_fract u_exp u_sqrt u_cbrt u_ln u_log2 u_log10 u_round u_swap_bytes u_to_le u_to_be
 u_abs u_signum u_minus u_fact u_cast_to_int u_cast_to_float conv_to_int_float vec_scalar_ops""".split()
U7_VECTOR = ["vec_dot_cross"]

VALUE_TRUST = [
    A_CBMC, A_FMT, A_NOOVF,
    "table entries are verified as text cut from /repo/src/value.rs on every run (extract/gen_tables.py): G1 private functions are called through the hook's one-line forwarding wrappers, G3 association entry<->text is by source position, G4 the entry expression is called directly instead of through the fn pointer stored in the table",
    "float primitives (sin, cos, ..., powf, powi, atan2) are uninterpreted: replaced by distinct tag functions via -Z stubbing; floor/ceil/round/trunc/fract/abs/signum/min/max and + - * / use CBMC's IEEE-754 model",
    "C16: instantiation Val<i32, f64> only; C17: Val<i32, f64> and Val<i64, f32>",
]


def c16_kani(tier, gen):
    hs = ["u7::" + h for h in U7_FUNCTIONAL] + ["vgen::" + h for h in gen["value_harnesses"]["ac"]]
    if tier == "thorough":
        hs += ["u7::" + h for h in U7_VECTOR] + ["vgen::" + h for h in gen["value_harnesses"]["ac_slow"]]
    return hs


# entries whose code converts between integer / float / usize types: their second-instantiation
# (Val<i64, f32>) totality harness is part of the quick tier, all others are thorough-only
C17_QUICK_I64_F32 = {"tg_caret_bin", "tg_to_int_un", "tg_to_float_un", "tg_fact_un", "tg_lt_lt_bin", "tg_gt_gt_bin", "tg_period_bin",
                     "tg_percent_bin", "tg_slash_bin", "tg_atan2_bin", "tg_minus_un", "tg_abs_un"}


# array-tier harnesses of the entries that index into / iterate over arrays: quick tier as well
C17_QUICK_ARRAY = {"ta_cross_bin", "ta_dot_bin", "ta_period_bin", "ta_length_un", "ta_minus_un"}


def c17_kani(tier, gen):
    vh = gen["value_harnesses"]
    hs = ["vgen::" + h for h in vh["total_scalar"]]
    hs += ["vgen::" + h for h in vh["total_i64_f32"] if tier == "thorough" or h in C17_QUICK_I64_F32]
    hs += ["vgen::" + h for h in vh["total_array"] if tier != "thorough" and h in C17_QUICK_ARRAY]
    if tier == "thorough":
        hs += ["vgen::" + h for h in vh["total_array"]]
    return hs


PLANS["C16"] = {
    "level": "proof",
    "kani": c16_kani,
    "kani_timeout": {"quick": 900, "thorough": 1800},
    "owns_unprefixed": False,      # panics / overflows in these harnesses belong to C17
    "trusted_base": VALUE_TRUST,
    "assumptions": VALUE_TRUST + [
        "functional Int x Int obligations of * / % (and ^ with exponent 2, 3) range over [-2048, 2047] u {MIN, MIN+1, -65536, 65535, 46340, 46341, MAX-1, MAX} (equivalence of two 32-bit multiplier/divider circuits is out of reach of SAT); every other obligation ranges over all 2^32 / 2^64 operand values",
        "`^` int^int is exact for exponents 0..3 and for bases 0, 1, -1; for other exponents only `int or error`, `error for |base| >= 2 and exponent >= 32` and `error for negative exponents` are decided",
        "O-flag-AC (flagged commutative => associative and commutative) is decided on Int/Bool operands (`&&`, `||`: Bool; `*`: |x| <= 1024; vector operators: length 3) and only when no grouping yields an error value",
    ],
    "not_covered": [
        "literal syntax and parsing of values (FromStr for Val, ValMatcher regex)",
        "precedence of expressions over the value table (parser; see C01 for the order function)",
        "array x scalar arithmetic results (only totality and error propagation are decided, in the thorough tier)",
    ],
    "bounds": {"quick": ["scalar operands: Int(any i32) | Float(any f64) | Bool | None | Error — complete", "see assumptions for the narrowed Int x Int domain of * / % ^"],
               "thorough": ["as quick, plus arrays of length 0..=3 with symbolic entries for dot / cross / . / length"]},
    "explanation": "Every entry of ValOpsFactory::make() is checked against the documented typing and error rules, one loop-free harness per operator over the whole scalar operand domain (operand kinds enumerated concretely, operand data symbolic).",
}
PLANS["C17"] = {
    "level": "proof",
    "kani": c17_kani,
    "kani_timeout": {"quick": 900, "thorough": 1800},
    "owns_unprefixed": True,
    "ignore_prefixes": ["C16 "],
    "trusted_base": VALUE_TRUST,
    "assumptions": VALUE_TRUST,
    "not_covered": ["panics reachable only through parse-time folding of literals are the same operator calls; the parser path itself is not executed",
                    "arrays longer than 3 entries (thorough tier covers 0..=3)"],
    "bounds": {"quick": ["scalar operands, complete: all 25 ordered kind pairs x all 2^32 / 2^64 payload values per entry (Val<i32, f64>)",
                         "second instantiation Val<i64, f32> for the 12 entries that convert between number types",
                         "arrays of length 0..=3 for cross, dot, `.`, length and unary minus"],
               "thorough": ["as quick, plus every kind pair involving arrays of length 0..=3, plus Val<i64, f32> for every entry"]},
    "explanation": "C17 is the contract `returns` (no panic, no overflow, no failed unwrap, no out-of-bounds) on every entry of the value table; one generated harness per entry.",
}
PLANS["C19"] = {
    "level": "proof",
    "kani": {"quick": ["u8_float::float_table_f64", "u8_float::float_table_f32", "u8_float::float_table_shape"],
             "thorough": ["u8_float::float_table_f64", "u8_float::float_table_f32", "u8_float::float_table_shape",
                          "u8_float::float_table_real_f64_a", "u8_float::float_table_real_f64_b", "u8_float::float_table_real_f64_c"]},
    "kani_timeout": {"quick": 900, "thorough": 2400},
    "owns_unprefixed": True,
    "trusted_base": [A_CBMC, A_FMT, A_NOOVF,
                     "std's f64/f32 primitives compute the functions they are named after (the property's own yardstick); under Kani they are uninterpreted distinct tag functions",
                     "quick tier: entries are verified as text cut from /repo/src/operators.rs (gen_tables.py, G3/G4); thorough tier additionally calls the run-time table of FloatOpsFactory::<f64>::make() through its fn pointers"],
    "assumptions": [A_CBMC, A_FMT, A_NOOVF, "CBMC's IEEE-754 model for + - * / neg abs signum floor ceil round trunc fract min max"],
    "not_covered": ["evaluation through parsed expressions in infix and call form (parser)", "rounding accuracy of std's transcendental functions"],
    "bounds": {"all": ["none: all f64 / f32 bit patterns for every entry"]},
    "explanation": "Every entry of FloatOpsFactory::<f64|f32>::make() equals the Rust primitive of its documented name with the documented argument order, for all argument bit patterns; constants equal std::f64::consts converted to T.",
}
PLANS["C01"] = {
    "level": "model_checking",
    "verus": ["u123", "u4"],
    "kani": {"quick": ["u5::is_operator_binary_all", "u4::unary_apply", "u4::flatop_apply", "u4::unary_append_after", "u4::unary_remove_latest", "u4::unary_append_iter",
                       "u6::flat_perm_desc_3", "u6::flat_ltr_3", "u6::flat_last_3", "u6::deep_perm_desc_3", "u6::deep_ltr_3", "u6::deep_perm_desc_4", "u6::deep_ltr_4",
                       "u6::attach_parse_3", "u6::attach_flatten_3"],
             "thorough": ["u5::is_operator_binary_all", "u4::unary_apply", "u4::flatop_apply", "u4::unary_append_after", "u4::unary_remove_latest", "u4::unary_append_iter",
                          "u6::flat_perm_desc_3", "u6::flat_ltr_3", "u6::flat_last_3", "u6::deep_perm_desc_3", "u6::deep_ltr_3", "u6::deep_perm_desc_4", "u6::deep_ltr_4",
                       "u6::attach_parse_3", "u6::attach_flatten_3"]},
    "kani_timeout": {"quick": 900, "thorough": 3000},
    "kani_jobs": {"thorough": 6},
    "owns_unprefixed": True,
    "cex_map": PLANS["C14"]["cex_map"], "cex_native": PLANS["C14"]["cex_native"], "complete_cross_checks": PLANS["C14"]["complete_cross_checks"],
    "trusted_base": PLANS["C14"]["trusted_base"] + [A_CBMC, A_FMT, A_NOOVF,
        "A-attach, selection part now CHECKED (u6::attach_parse_3 / attach_flatten_3 on the two statements cut from flat.rs make_expression / flatten_vecs by gen_tables.py::gen_attach, 3 operators): the chosen operator is the right-most one of minimal priority of the group. Still assumed: that the chain is then appended to exactly that operator (the line after the cut statement), and that `depth` / flat_ops hold what the parser's surrounding code is supposed to put there"],
    "assumptions": [A_VERUS, A_CBMC, A_FMT, A_NOOVF],
    "not_covered": ["tokenisation, depth-scaled priorities, and everything in make_expression around the one statement that selects WHICH operator a parenthesised unary function is attached to (that statement is checked, bounded)",
                    "constant folding (C02)", "constants standing for their values (tokenizer)"],
    "bounds": {"quick": ["reduction kernel (Verus): unbounded", "unary composition UnaryOp::apply / remove_latest / FlatOp::apply (Verus unit u4): unbounded, all chain lengths",
                         "sign rule: complete finite domain", "append_after / append_after_iter: small concrete chains (Kani) + long chains (sampled native probe)",
                         "application order: flat form 3 operators, deep form 3 and 4 operators (4: base priorities 0..=3), from a symbolic 3-entry table, priorities 0..=99, depth 0..=2",
                         "unary attachment sites (statement slices of make_expression / flatten_vecs): 3 operators, same table, closing depth 0..=2"],
               "thorough": ["as quick (the flat order function with 4 operators exceeds 28 GB in CBMC's symbolic execution since the repair of the regrouping rule and is not part of any tier); sampled native probes as in quick"]},
    "explanation": "Partial: decided are (a) the reduction of an operand array under a given order (Verus, all sizes), (b) the order function (bounded), (c) unary composition (bounded), (d) the unary/binary role of signs (complete).",
}
PLANS["C01"]["cex_map"] = dict(PLANS["C14"]["cex_map"], **{"unaryop_apply": ["u4::unary_apply"], "UnaryOp<T>::remove_latest": ["u4::unary_remove_latest"],
                                                            "UnaryOp<T>::len": ["u4::unary_apply"], "FlatOp<T>::apply": ["u4::flatop_apply"]})
PLANS["C01"]["trusted_base"] = PLANS["C01"]["trusted_base"] + [
    "unit u4: opaque stand-ins UnaryFuncWithIdx<T> / BinOpWithIdx<T> whose `apply` is an uninterpreted deterministic function (the real bodies are one-line calls through a fn pointer); one external_body delegation `UnaryOp::apply { unaryop_apply(self, x) }` (Verus quirk, R5) carrying the same contract text as the hoisted function",
]
PLANS["C01"]["native_probes"] = {t: [("u6::flat_perm_desc_40", 30000), ("u6::flat_ltr_40", 30000), ("u6::deep_ltr_40", 30000), ("u6::attach_parse_40", 30000), ("u6::attach_flatten_40", 30000), ("u4::unary_append_big", 30000)] for t in ("quick", "thorough")}
PLANS["C01"]["bounds"]["quick"].append("sampled native probes (not proofs): order functions with 40 operators, unary chains of 15..=20 functions, 30000 palette inputs each")
PLANS["C01"]["native_exhaustive"] = {"quick": [("u6::flat_perm_desc_4", 1, 400000000), ("u6::flat_ltr_4", 1, 400000000), ("u6::attach_parse_4", 1, 400000000), ("u6::attach_flatten_4", 1, 400000000),
                                               ("u6::attach_flatten_5", 1, 400000000)],
                                     "thorough": [("u6::flat_perm_desc_4", 1, 400000000), ("u6::flat_ltr_4", 1, 400000000), ("u6::attach_parse_4", 1, 400000000), ("u6::attach_flatten_4", 1, 400000000),
                                                  ("u6::attach_parse_5", 1, 400000000), ("u6::attach_flatten_5", 1, 400000000), ("u6::flat_ltr_5", 1, 400000000)]}
PLANS["C01"]["bounds"]["quick"].append("exhaustive native enumeration (explicit runs of the same contract bodies on the real code; bounded stand-in, not a proof): flat order function with 4 operators (the size CBMC cannot finish), attachment statements with 4 and 5 operators; 3-entry table with base priorities 0..=3, depth 0..=2, all flags and operand kinds")
PLANS["C01"]["bounds"]["thorough"].append("exhaustive native enumeration: additionally the flat order function (left-to-right obligation, 1.9 billion runs) and the parser attachment statement with 5 operators")
PLANS["C13"] = {
    "level": "model_checking",
    "kani": {"quick": ["u5::is_operator_binary_all", "u5::numeric_text_4"], "thorough": ["u5::is_operator_binary_all", "u5::numeric_text_4", "u5::numeric_text_6"]},
    "kani_timeout": {"quick": 900, "thorough": 2400},
    "owns_unprefixed": True,
    "trusted_base": [A_CBMC, A_FMT, A_NOOVF],
    "assumptions": [A_CBMC, A_FMT, A_NOOVF],
    "not_covered": ["operator-name matching, longest match, identifier look-ahead (regex) and brace scanning — all inside tokenize_and_analyze"],
    "bounds": {"quick": ["sign rule: complete", "number recogniser: all ASCII strings of <= 4 bytes"], "thorough": ["sign rule: complete", "number recogniser: all ASCII strings of <= 6 bytes"]},
    "explanation": "Partial: the sign rule (is_operator_binary) over its complete finite domain and the number recogniser (is_numeric_text) for all short ASCII strings.",
}
PLANS["C13"]["native_exhaustive"] = {"quick": [("c13::lexical_%d" % n, 1, 400000000) for n in (1, 2, 3, 4)], "thorough": [("c13::lexical_%d" % n, 1, 400000000) for n in (1, 2, 3, 4, 5)]}
PLANS["C13"]["bounds"]["quick"].append("exhaustive native enumeration (explicit runs of the contract body c13::lexical_* on the real tokenizer; bounded stand-in, not a proof): tokenize_and_analyze against a reference tokenizer written from the property text on EVERY concatenation of 1..=4 pieces of a 26-piece palette (operator / constant names, digits, letters, Greek letters, blanks, parentheses, comparison signs, a braced name) x 2 operator tables (default-shaped; binary `log` next to unary log2 / log10)")
PLANS["C13"]["bounds"]["thorough"].append("exhaustive native enumeration: as quick plus every concatenation of 5 pieces (12.9 million texts)")
PLANS["C13"]["not_covered"] = ["under a deductive contract: operator-name matching, longest match, identifier look-ahead (regex) and brace scanning inside tokenize_and_analyze — regex / lazy_static are out of CBMC's and Verus' reach; they are only enumerated natively over a finite palette (bounds)", "the comma (function-call) rewriting of the tokenizer", "texts outside the palette"]
PLANS["C13"]["native_probes"] = {"quick": [("u5::numeric_text_utf8", 200000)], "thorough": [("u5::numeric_text_utf8", 2000000)]}
PLANS["C13"]["bounds"]["quick"].append("sampled native probe (not a proof): 200000 strings of up to 12 characters incl. multi-byte ones")
PLANS["C09"] = {
    "level": "proof",
    "kani": {"quick": ["u5::partial_index"], "thorough": ["u5::partial_index"]},
    "owns_unprefixed": True,
    "trusted_base": [A_CBMC, A_FMT, A_NOOVF], "assumptions": [A_CBMC, A_FMT, A_NOOVF],
    "not_covered": ["under a deductive contract: everything except check_partial_index — partial / partial_nth / partial_iter(_relaxed), to_deepex / reset_vars and the DeepEx arithmetic behind them do not finish under CBMC (one-node expression: 25 min, no result) and are outside Verus (trait objects, closures, SmallVec). They are only enumerated natively over a finite palette (bounds)",
                    "expressions outside the 12-expression palette, index sequences longer than 4, value types other than f64"],
    "bounds": {"all": ["check_partial_index: none, all usize pairs (Kani, complete)",
                       "exhaustive native enumeration (explicit runs of the contract body c09::bookkeeping_* on the real public API; bounded stand-in, not a proof): 12 expressions x {FlatEx, DeepEx} x {strict, relaxed} x every index sequence of length 0..=4 with entries 0..=nvars+1 — out-of-range index is an error at every position, variable list preserved after every step, iterated == sequential, n-th == n singles, order zero == identity, mixed partials agree (compared at two evaluation points)"]},
    "native_exhaustive_release": {t: [("c09::bookkeeping_flat", 1, 400000000), ("c09::bookkeeping_deep", 1, 400000000)] for t in ("quick", "thorough")},
    "native_exhaustive": {"quick": [("c09::bookkeeping_flat", 1, 400000000), ("c09::bookkeeping_deep", 1, 400000000)],
                          "thorough": [("c09::bookkeeping_flat", 1, 400000000), ("c09::bookkeeping_deep", 1, 400000000)]},
    "explanation": "Proved: check_partial_index(i, n, _) is Err iff i >= n for all usize pairs (complete, loop-free). Bounded, NOT proved: the bookkeeping clauses on the public differentiation API, enumerated natively over a finite palette.",
}
C07_SLOW_PREFIXES = [(0, 4), (0, 5), (0, 6), (1, 4), (1, 5), (1, 6), (3, 4), (3, 5), (3, 6), (4, 5), (6, 5)]
C07_LEN3 = ["c07::l3_%d%d" % (a, b) for a in range(7) for b in range(7) if (a, b) not in C07_SLOW_PREFIXES]
PLANS["C07"] = {
    "level": "model_checking",
    "kani": {"quick": ["c07::preconditions_len_0", "c07::preconditions_len_1", "c07::preconditions_len_2"] + C07_LEN3,
             "thorough": ["c07::preconditions_len_0", "c07::preconditions_len_1", "c07::preconditions_len_2"] + C07_LEN3},
    # exhaustive native enumeration: (harness, payload radix, max runs per shard)
    "native_exhaustive": {"quick": [("c07::preconditions_len_%d" % n, 1, 400000000) for n in range(3, 10)] + [("c07::paren_walk_%d" % n, 1, 400000000) for n in (10, 12, 14, 16)] + [("c13::unknown_rejected_%d" % n, 1, 400000000) for n in (2, 3, 4)] + [("c07::single_damage", 1, 400000000)],
                          "thorough": [("c07::preconditions_len_%d" % n, 1, 400000000) for n in range(3, 11)] + [("c07::paren_walk_%d" % n, 1, 400000000) for n in (10, 12, 14, 16)] + [("c13::unknown_rejected_%d" % n, 1, 400000000) for n in (2, 3, 4)] + [("c07::single_damage", 1, 400000000)]},
    # the same enumeration on cargo's optimised profile (debug assertions off): a guard that /repo compiles only under
    # cfg(debug_assertions) is absent there (seeded change C07_7)
    "native_exhaustive_release": {t: [("c07::single_damage", 1, 400000000)] for t in ("quick", "thorough")},
    "kani_timeout": {"quick": 900, "thorough": 3000},
    "owns_unprefixed": True,
    "trusted_base": [A_CBMC, A_FMT, A_NOOVF], "assumptions": [A_CBMC, A_FMT, A_NOOVF],
    "not_covered": ["the operand/operator count check (make_expression, DeepEx::new) is not under a deductive contract: only reached by c07::single_damage (single-point damages of 10 expressions through all five parsers, native enumeration, debug build and optimised build)",
                    "build profiles: Kani and every other native run use the debug profile; only c07::single_damage is repeated on the release profile", "unknown-character rejection by the regex tokenizer is not under a deductive contract: only enumerated natively over a 26-piece palette (c13::unknown_rejected_*, bounds)", "token sequences longer than the bounds"],
    "bounds": {"quick": ["Kani (symbolic token kinds and payloads): all token sequences of length 0, 1, 2 and 3 over 7 token kinds (length 3: 38 of the 49 two-token prefixes, each with a symbolic third token; the 11 prefixes with a legally placed operator in the middle do not finish in 15 min)",
                         "exhaustive native enumeration (explicit runs of the same contract body on the real code; bounded stand-in, not a proof): EVERY sequence of 3..=9 tokens over the 7 token kinds (number payload fixed), and every pair-valid sequence of 10, 12, 14 and 16 tokens over {number, (, ), binary operator} for the parenthesis walk / trailing-operator rule; tokenize_and_analyze rejects every text of 2..=4 pieces of a 26-piece palette (incl. `=`, U+03AC, which lies between the two Greek ranges, and the two-byte blank-like U+00A0) that the reference tokenizer of C13 cannot tokenise; c07::single_damage: 10 well-formed expressions x {delete a parenthesis, insert ( or ) anywhere, append a binary operator, extra operand beside any operand, illegal character anywhere} x {FlatEx::parse, parse_wo_compile, DeepEx::parse, eval_str, parse_val} never parses — run on the debug profile and again on cargo's release profile (debug assertions off)"],
               "thorough": ["as quick, plus every sequence of 10 tokens over the 7 kinds (282 million runs). Kani length 4 was tried: most of the 343 harnesses with three fixed kinds take 3-19 s, a few do not finish in 10 min"]},
    "explanation": "Partial, bounded: check_parsed_token_preconditions rejects exactly the documented malformed shapes for every short token sequence.",
}
PLANS["C15"] = {
    "level": "model_checking",
    "kani": {"quick": ["c15::consuming_vs_cloning_2", "c15::shape_xyx"],
             "thorough": ["c15::consuming_vs_cloning_2", "c15::shape_xyx", "c15::shape_yxyx", "c15::shape_xlyx"]},
    "kani_timeout": {"quick": 900, "thorough": 3000},
    "kani_jobs": {"thorough": 2},
    "owns_unprefixed": True,
    "trusted_base": [A_CBMC, A_FMT, A_NOOVF], "assumptions": [A_CBMC, A_FMT, A_NOOVF],
    "not_covered": ["entry points eval_vec / eval_iter (arity guards, collection of the iterator)", "expressions with more than 3 nodes or more than 2 variables", "unary chains longer than 1"],
    "bounds": {"quick": ["2 nodes, each a symbolic choice of {literal, var 0, var 1} with optional unary function, symbolic values", "the concrete 3-node shape x y x (order: right operator first), symbolic values and unary flags"],
               "thorough": ["as quick, plus the concrete 4-node shapes y x y x and x L y x (3 nodes with a symbolic shape exhaust 28 GB, the shape x x x does not finish in 15 min: neither is part of a tier)"]},
    "explanation": "Bounded: eval_flatex_consuming_vars agrees with eval_flatex_cloning and with an independent reference reduction; no moved-out value reaches an operator; single-occurrence variables are not cloned.",
}
PLANS["C15"]["native_probes"] = {t: [("c15::consuming_vs_cloning_36", 20000)] for t in ("quick", "thorough")}
# once more on cargo's release profile (debug assertions off), as for C07
PLANS["C15"]["native_exhaustive_release"] = {t: [("c15::consuming_vs_cloning_3", 3, 400000000)] for t in ("quick", "thorough")}
PLANS["C15"]["native_exhaustive"] = {"quick": [("c15::consuming_vs_cloning_3", 3, 400000000), ("c15::consuming_vs_cloning_4", 3, 400000000), ("c15::consuming_vs_cloning_5", 2, 400000000)],
                                     "thorough": [("c15::consuming_vs_cloning_3", 3, 400000000), ("c15::consuming_vs_cloning_4", 3, 400000000), ("c15::consuming_vs_cloning_5", 3, 400000000),
                                                  ("c15::consuming_vs_cloning_6", 1, 400000000)]}
PLANS["C15"]["bounds"]["quick"].append("exhaustive native enumeration (explicit runs of the same contract body on the real code; bounded stand-in, not a proof): every shape, unary flag and application order with 3, 4 and 5 nodes, values from {0, 1, 2} (3, 4 nodes) / {0, 1} (5 nodes)")
PLANS["C15"]["bounds"]["thorough"].append("exhaustive native enumeration: 3, 4, 5 nodes with values from {0, 1, 2}; 6 nodes with all values equal (moved-flag and clone-count obligations only)")
PLANS["C15"]["bounds"]["quick"].append("sampled native probe (not a proof): 36 nodes (20000 palette inputs)")
PLANS["C15"]["not_covered"] = ["entry points eval_vec / eval_iter (arity guards, collection of the iterator)", "expressions with more than 6 nodes (only sampled) or more than 2 variables", "unary chains longer than 1"]
PLANS["C04"] = {
    "level": "model_checking",
    "kani": {"quick": ["c04::arity_eval", "c04::arity_eval_relaxed", "c04::arity_eval_vec_1", "c04::arity_eval_vec_3", "c04::arity_eval_iter_1", "c04::arity_eval_iter_3"],
             "thorough": ["c04::arity_eval", "c04::arity_eval_relaxed", "c04::arity_eval_vec_1", "c04::arity_eval_vec_2", "c04::arity_eval_vec_3",
                          "c04::arity_eval_iter_1", "c04::arity_eval_iter_2", "c04::arity_eval_iter_3"]},
    "kani_timeout": {"quick": 900, "thorough": 2400},
    "owns_unprefixed": True,
    "trusted_base": [A_CBMC, A_FMT, A_NOOVF], "assumptions": [A_CBMC, A_FMT, A_NOOVF],
    "not_covered": ["brace tokenisation", "find_parsed_vars / find_var_index (name collection, order and lookup)", "reset_vars / var_names_union, derived expressions and the deep form's guards are not under a deductive contract (DeepEx is out of CBMC's and Verus' reach): only enumerated natively over a finite palette (bounds)", "substitution (subs)"],
    "bounds": {"quick": ["one-node FlatEx over two variables, symbolic variable index; eval / eval_relaxed: slices of symbolic length 0..=4; eval_vec / eval_iter: 1 and 3 values (error paths)"],
               "thorough": ["as quick, plus eval_vec / eval_iter with exactly 2 values (the consuming evaluation; 23 min each)"]},
    "explanation": "Partial, bounded: arity guards and index binding of the flat form.",
}


# ---------------------------------------------------------------------------------------------
# functions of /repo under a Kani contract, per property: (file, regex locating the item, harnesses)
# the driver resolves file:line at run time (never by line number)
KANI_TARGETS = {
    "C14": [("src/expression/number_tracker.rs", r"^impl NumberTracker for usize", "u1::word_tracker (complete)"),
            ("src/expression/number_tracker.rs", r"^impl NumberTracker for \[usize\]", "u1::slice_tracker_* (bounded by word count)"),
            ("src/expression/mod.rs", r"^pub fn eval_binary<", "u1::eval_binary_orders_* (bounded by operator count)")],
    "C01": [("src/parser.rs", r"^pub fn is_operator_binary<", "u5::is_operator_binary_all (complete)"),
            ("src/operators.rs", r"^    pub fn apply\(&self, x: T\) -> T", "u4::unary_apply (chains <= 4)"),
            ("src/operators.rs", r"^    pub fn append_after\(", "u4::unary_append_after"),
            ("src/operators.rs", r"^    pub fn append_after_iter<", "u4::unary_append_iter"),
            ("src/operators.rs", r"^    pub fn remove_latest\(", "u4::unary_remove_latest"),
            ("src/expression/flat.rs", r"^    impl<T: Clone> OperateBinary<T> for FlatOp<T>", "u4::flatop_apply"),
            ("src/expression/flat.rs", r"^    pub\(super\) fn prioritized_indices_flat<", "u6::flat_* (bounded: 3 / 4 operators)"),
            ("src/expression/deep.rs", r"^pub fn prioritized_indices<", "u6::deep_* (bounded: 3 / 4 operators)"),
            ("src/expression/flat.rs", r"^    pub\(super\) fn make_expression<", "ONE statement only (`let lowest_prio_flat_op = ...;`, cut as text): u6::attach_parse_3 (bounded: 3 operators)"),
            ("src/expression/flat.rs", r"^pub fn flatten_vecs<", "ONE statement only (`let low_prio_op = match ...;`, cut as text): u6::attach_flatten_3 (bounded: 3 operators)")],
    "C13": [("src/parser.rs", r"^pub fn is_operator_binary<", "u5::is_operator_binary_all (complete)"),
            ("src/parser.rs", r"^pub fn is_numeric_text\(", "u5::numeric_text_* (ASCII strings up to the bound)")],
    "C09": [("src/expression/partial.rs", r"^pub fn check_partial_index\(", "u5::partial_index (complete)")],
    "C07": [("src/parser.rs", r"^pub fn check_parsed_token_preconditions<", "c07::preconditions_len_* (bounded by sequence length)"),
            ("src/parser.rs", r"^fn make_pair_pre_conditions<", "reached through check_parsed_token_preconditions")],
    "C15": [("src/expression/flat.rs", r"^    pub\(super\) fn eval_flatex_consuming_vars<", "c15::consuming_vs_cloning_* (bounded by node count)"),
            ("src/expression/flat.rs", r"^    pub\(super\) fn eval_flatex_cloning<", "c15::consuming_vs_cloning_*"),
            ("src/expression/flat.rs", r"^    fn eval_numbers<", "reached through both evaluators")],
    "C04": [("src/expression/flat.rs", r"^    fn eval\(&self, vars: &\[T\]\) -> ExResult<T>", "c04::arity_eval"),
            ("src/expression/flat.rs", r"^    fn eval_relaxed\(&self, vars: &\[T\]\) -> ExResult<T>", "c04::arity_eval_relaxed"),
            ("src/expression/flat.rs", r"^    pub fn eval_vec\(", "c04::arity_eval_vec"),
            ("src/expression/flat.rs", r"^    pub fn eval_iter\(", "c04::arity_eval_iter")],
    "C16": [("src/value.rs", r"^    fn make<'a>\(\) -> Vec<Operator<'a, Val<I, F>>>", "every entry, as extracted text: u7::* and vgen::ac_*"),
            ("src/value.rs", r"^impl<I, F> PartialEq<Val<I, F>> for Val<I, F>", "u7::cmp_eq_ord through the == / != entries"),
            ("src/value.rs", r"^impl<I, F> PartialOrd<Val<I, F>> for Val<I, F>", "u7::cmp_eq_ord through the < <= > >= entries"),
            ("src/value.rs", r"^    pub fn to_bool\(self\)", "u7::conv_to_bool, u7::if_else")],
    "C17": [("src/value.rs", r"^    fn make<'a>\(\) -> Vec<Operator<'a, Val<I, F>>>", "every entry, as extracted text: vgen::t_* / ta_* / tg_* (one per entry)")],
    "C19": [("src/operators.rs", r"^    fn make<'a>\(\) -> Vec<Operator<'a, T>>", "every entry, as extracted text: u8_float::float_table_f64 / _f32; thorough: the run-time table")],
}

PLANS["C04"]["native_probes"] = {"quick": [("c04::var_lookup_probe", 200000)], "thorough": [("c04::var_lookup_probe", 2000000)]}
PLANS["C04"]["bounds"]["quick"].append("sampled native probe (not a proof): find_parsed_vars / find_var_index on 200000 random token lists over 12 tricky names")
C04_API = [("c04::var_lookup_spill", 1, 400000000), ("c04::arity_api", 1, 400000000), ("c04::derived_names", 1, 400000000), ("c04::derivative_names", 1, 400000000)]
# public-API contract bodies once more on cargo's release profile (debug assertions off), as for C07
PLANS["C04"]["native_exhaustive_release"] = {t: list(C04_API) for t in ("quick", "thorough")}
PLANS["C04"]["native_exhaustive"] = {"quick": [("c04::var_lookup_3", 1, 400000000), ("c04::var_lookup_5", 1, 400000000), ("c04::var_lookup_6", 1, 400000000)] + C04_API,
                                     "thorough": [("c04::var_lookup_3", 1, 400000000), ("c04::var_lookup_5", 1, 400000000), ("c04::var_lookup_6", 1, 400000000), ("c04::var_lookup_7", 1, 400000000)] + C04_API}
PLANS["C04"]["bounds"]["quick"].append("exhaustive native enumeration of contract bodies on the public API (bounded stand-in, not a proof): name collection with 15..=20 distinct names + 3 enumerated tokens (beyond the inline capacity 16); arity of eval / eval_relaxed / eval_vec / eval_iter on parsed expressions with n in {0,1,2,3,15,16,17,18} variables and 0..=n+2 values, flat and deep form; sorted-union name list, arity guards and by-name value binding of a op b for 10 x 10 operand expressions x {+,-,*,/} x {FlatEx::operate_binary, DeepEx::operate_binary, DeepEx's std operators}; name list and arity guards of second derivatives of 6 expressions")
PLANS["C04"]["bounds"]["quick"].append("exhaustive native enumeration (explicit runs on the real code; bounded stand-in, not a proof): find_parsed_vars / find_var_index on EVERY list of 3, 5 and 6 tokens over 12 tricky names + number")
PLANS["C04"]["bounds"]["thorough"].append("exhaustive native enumeration: additionally every list of 7 tokens (62.7 million)")
PLANS["C04"]["not_covered"] = [x for x in PLANS["C04"]["not_covered"] if not x.startswith("find_parsed_vars")] + ["find_parsed_vars / find_var_index are not under a Kani contract (CBMC needs > 5 GB on one concrete token shape): enumerated exhaustively for short lists and sampled for longer ones, natively"]

