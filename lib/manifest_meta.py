"""static texts for MANIFEST.json"""
HOOK_COMMITS = ["7bb2255", "7785453"]
FIX_COMMITS = ["9ca3f5f", "6ae5073", "253787a", "daf940f", "d18c96a", "45ec270"]

KANI = "kani-contracts"
META = {
 "C14": {
  "engine": "verus-weave + kani-contracts",
  "design_ref": "DESIGN.md §4.1-4.3, §5 C14, §12.2",
  "technique": "Verus proof of extracted real functions against a reference-semantics post-condition; Kani cross-checks on the unextracted code",
  "level_text": "Deductive proof (Verus/Z3) for every chain length, every application order and every word count: eval_binary's result equals the nearest-live-neighbour reference reduction, both NumberTracker impls satisfy the trait's bit-view contract, both tracker-selection sites (eval_numbers; DeepEx::eval_relaxed as a statement slice) meet eval_binary's pre-condition, and the inlined copy of the index computation in flatex_to_deepex (statement slice) keeps the same invariant and never violates its own assert!. The verified text is cut from /repo on every run.",
  "level_note": "Trusted: Verus+Z3; assume_specification for rotate_right/leading_ones/trailing_ones (re-checked for all usize by a complete Kani harness) and mem::take; operators are deterministic (A1); SmallVec~Vec; one external_body delegation (Verus quirk) with its implication lemma; statement slices drop the surrounding function (generated frame); that the order functions return a permutation is decided only boundedly (C01).",
 },
 "C16": {
  "engine": KANI, "design_ref": "DESIGN.md §4.7, §12.4-12.6",
  "technique": "Kani function contracts (harness level) on every extracted entry of the value operator table, loop-free over the full scalar operand domain",
  "level_text": "For every entry of ValOpsFactory::make() (named functions and closures, extracted as text on every run) the documented typing / error / promotion / comparison / if-else rule is a post-condition discharged by CBMC for all Int(i32) | Float(f64) | Bool | None | Error operands; entries flagged commutative are proved associative and commutative on their documented domain.",
  "level_note": "Float primitives and float + - * /, and integer checked_mul/div/rem, are uninterpreted (stubbed) in the functional harnesses; `^` exact only for exponents 0..3 on a narrowed base set; arrays (len <= 3) only in the thorough tier; instantiation Val<i32,f64>; error-message text not verified; parser/precedence not covered.",
 },
 "C17": {
  "engine": KANI, "design_ref": "DESIGN.md §4.7, §12.4-12.6",
  "technique": "Kani: contract `returns` (no panic / overflow / failed unwrap / out-of-bounds) on every extracted entry of the value operator table, full scalar operand domain",
  "level_text": "One generated loop-free harness per table entry proves, for all 25 ordered kind pairs and all 2^32 / 2^64 payload values, that the entry returns (rustc's overflow, shift, bounds and unwrap panics are in the program and checked by CBMC). A second instantiation Val<i64, f32> is proved for the 12 entries that convert between number types (quick) / for all entries (thorough). Thorough tier adds arrays of length 0..=3.",
  "level_note": "std::fmt::format stubbed (error text not verified); --no-overflow-checks drops only CBMC's own float-NaN instrumentation; float primitives uninterpreted (they cannot panic); entries verified as extracted text (G1/G3/G4), not through the run-time fn pointers; instantiations Val<i32,f64> and Val<i64,f32>.",
 },
 "C19": {
  "engine": KANI, "design_ref": "DESIGN.md §4.8, §12.4-12.6",
  "technique": "Kani with -Z stubbing: every extracted entry of the float table equals the Rust primitive of its documented name, primitives uninterpreted",
  "level_text": "For every operator and constant of FloatOpsFactory::<f64> and ::<f32> and all argument bit patterns the entry equals the primitive of its documented name with the documented argument order (distinct, order-sensitive tag functions stand for the primitives, so swapped functions or arguments are refuted); the table has exactly the documented 34 operators and 6 constants. Thorough tier repeats this through the run-time f64 table's fn pointers.",
  "level_note": "std's primitives are the yardstick and are uninterpreted (incl. + - * / via the operator traits); abs/signum/floor/ceil/round/trunc/fract/min/max use CBMC's IEEE model; parsed-expression route (infix / call form) not covered.",
 },
 "C01": {
  "engine": "verus-weave + kani-contracts", "design_ref": "DESIGN.md §4.2, §4.4-4.6, §5 C01, §12.6a",
  "technique": "Verus proofs of eval_binary (reference reduction) and of unary composition (UnaryOp::apply, FlatOp::apply) + Kani contracts on the order functions (bounded), append_after* (bounded) and the sign rule (complete) + sampled native probes at large sizes",
  "level_text": "Partial. Proved for all sizes: reducing an operand array under a given order is the nearest-live-neighbour reduction; a chain of unary operators composes right-to-left and runs after the binary operator it sits on (UnaryOp::apply, remove_latest, FlatOp::apply). Complete finite domain: unary/binary role of sign-like operators. Bounded: order functions (3 operators quick / 4 thorough, priorities 0..=99, depth 0..=2: permutation, descending priority, left-to-right among equals with only AC-invisible regrouping, unary-carrying operator last in its group), the two statements that select the operator a group's unary chain is attached to (cut from make_expression / flatten_vecs; 3 operators: right-most operator of minimal priority of the group) and append_after / append_after_iter (small chains; long chains only by a sampled native probe). The flat order function with 4 operators (out of CBMC's reach) and the attachment statements with 4 / 5 operators are enumerated exhaustively natively (explicit runs of the same contract bodies, base priorities 0..=3; not a proof).",
  "level_note": "Not covered: tokenizer, make_expression apart from the one selection statement (that the chain is appended to the selected operator, and how depth / flat_ops are filled, stays assumption A-attach), constant folding. Bounded parts are bounded stand-ins, not proofs.",
 },
 "C13": {
  "engine": KANI, "design_ref": "DESIGN.md §4.5, §5 C13, §12.6a",
  "technique": "Kani: complete harness over the finite domain of is_operator_binary; bounded harness for is_numeric_text; bounded stand-in for the regex tokenizer: a lexical contract (reference tokenizer from the property text) executed natively on every text of a finite palette (exhaustive enumeration)",
  "level_text": "Partial. Sign rule decided over its complete finite domain; number recogniser decided for all ASCII strings of <= 4 bytes (quick) / <= 6 bytes (thorough) against 'maximal digit/dot prefix with >= 1 digit and <= 1 dot'.",
  "level_note": "Operator-name matching, longest match, identifier look-ahead and brace scanning live in the regex tokenizer, out of CBMC's and Verus' reach: not under a deductive contract; tokenize_and_analyze is compared with a reference tokenizer on every concatenation of 1..=4 (thorough: 5) pieces of a 26-piece palette for two operator tables (explicit native enumeration, not a proof).",
 },
 "C09": {
  "engine": KANI, "design_ref": "DESIGN.md §5 C09, §12.6a",
  "technique": "Kani: loop-free contract on check_partial_index over all usize pairs; bounded stand-in for the rest: the bookkeeping contract executed natively on every input of a finite palette (exhaustive enumeration)",
  "level_text": "Proved (thin): check_partial_index(i, n, _) is Err iff i >= n, for all usize pairs (complete). NOT proved, bounded: on 12 expressions x {FlatEx, DeepEx} x {strict, relaxed} x every index sequence of length 0..=4 with entries 0..=nvars+1 the public API (partial, partial_nth, partial_iter, *_relaxed) reports every out-of-range index, preserves the variable list after every step, and iterated == sequential, n-th == n singles, order zero == identity, mixed partials agree.",
  "level_note": "The level 'proof' refers to check_partial_index only. Everything behind the public differentiation API needs DeepEx (no result under CBMC, outside Verus) and is covered by explicit native enumeration over a finite palette, never counted as an obligation.",
 },
 "C07": {
  "engine": KANI, "design_ref": "DESIGN.md §5 C07, §12.6, §12.6a",
  "technique": "Kani: contract on check_parsed_token_preconditions for all token sequences up to a length bound; the same contract body executed natively on EVERY token sequence up to 9 / 10 tokens (exhaustive enumeration, bounded stand-in)",
  "level_text": "Partial, bounded: for every token sequence of length 0, 1 and 2 over the seven token kinds, and for 38 of the 49 prefix classes of length 3, the function rejects exactly the documented malformed shapes (empty, trailing operator, unbalanced / early-closing parentheses, forbidden adjacency). Beyond CBMC's reach the same contract body is executed natively on every sequence of 3..=9 (thorough: 10) tokens over the seven kinds and on every pair-valid sequence of 10..=16 tokens over {number, (, ), binary operator} (explicit enumeration on the real code, not a proof).",
  "level_note": "Bounded stand-in. The operand/operator count check (make_expression, DeepEx::new) is not covered; unknown-character rejection by the regex tokenizer is only enumerated natively over a small palette.",
 },
 "C15": {
  "engine": KANI, "design_ref": "DESIGN.md §5 C15, §12.6, §12.6a",
  "technique": "Kani: relational contract eval_flatex_consuming_vars == eval_flatex_cloning == reference reduction, with moved-flag and clone-counter operand type; the same contract body executed natively on every shape / order with 3..5 (thorough: 6) nodes (exhaustive enumeration, bounded stand-in)",
  "level_text": "Bounded: 2 symbolic nodes and the shape x y x (quick) / plus two concrete 4-node shapes (thorough), each node a literal-or-variable with optional unary function, symbolic values; every shape, unary flag and application order with 3, 4 and 5 nodes over small value sets enumerated natively (explicit runs, not a proof), 36-node expressions sampled: both evaluators agree with an independent reference, no moved-out placeholder reaches an operator, a variable occurring once is not cloned.",
  "level_note": "Bounded stand-in; eval_vec / eval_iter entry points and larger expressions not covered.",
 },
 "C04": {
  "engine": KANI, "design_ref": "DESIGN.md §5 C04, §12.6, §12.6a",
  "technique": "Kani: contracts on FlatEx::eval / eval_relaxed arity guards and index binding",
  "level_text": "Partial, bounded: one-node FlatEx over two variables, symbolic variable index, slices of symbolic length 0..=4: eval errs iff length != 2, eval_relaxed iff length < 2, an Ok result is the value at the node's index; eval_vec / eval_iter reject 1 and 3 values (quick) and bind correctly for 2 values (thorough).",
  "level_note": "Name collection/order/lookup (find_parsed_vars, find_var_index) is not under a Kani contract (out of CBMC's reach); the contract body is executed natively on every list of 3, 5, 6 (thorough: 7) tokens over 12 tricky names (exhaustive enumeration, not a proof) and sampled beyond; arity guards on parsed expressions around the inline capacity (15..18 variables), the name lists of a op b and of derivatives, and the deep form's guards are likewise enumerated natively over finite palettes (bounded, not proved). Brace tokenisation and substitution are not covered.",
 },
}

NOT_APPLICABLE = {
 "C02": "constant folding lives in FlatEx::compile / DeepEx::compile: SmallVec surgery, closures, iterator chains and fn pointers are outside Verus; Kani did not finish a 3-node compile()+eval in 6 min; no contract in reach speaks about folding (DESIGN §9)",
 "C03": "every clause goes through make_expression / deep::make_expression / flatex_to_deepex / flatten_vecs and the regex tokenizer; neither verifier can execute them at an affordable cost (DESIGN §9)",
 "C05": "needs real analysis over closures on DeepEx trees with String fields; floats/transcendentals are outside both verifiers (DESIGN §9)",
 "C06": "totality over all UTF-8 strings is a statement about the regex tokenizer and both parsers; only leaf obligations are provable and are reported under C14/C17/C13 (DESIGN §9)",
 "C08": "the comma rewrite is state inside the tokenizer loop; it cannot be cut out mechanically and a re-typed copy would be a model (DESIGN §9)",
 "C10": "histories of DeepEx constructions (operator table rebuilt and expression re-printed on every call): out of budget for Kani, out of language for Verus (DESIGN §9)",
 "C11": "same as C10: substitution is recursive DeepEx surgery with String names (DESIGN §9)",
 "C12": "about Debug/format! output being re-tokenisable: formatting is stubbed in Kani and unsupported in Verus (DESIGN §9)",
 "C18": "C05 over the value type (DESIGN §9)",
 "C20": "quantifies over thread interleavings; Kani has no threads, Verus would need its own permission types; Send+Sync is discharged by rustc, not by this family (DESIGN §9)",
}
