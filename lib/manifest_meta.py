"""static texts for MANIFEST.json"""
HOOK_COMMITS = ["7bb2255"]

META = {
 "C14": {
  "engine": "verus-weave + kani-contracts",
  "design_ref": "DESIGN.md §4.1-4.3, §5 C14",
  "technique": "Verus proof of extracted real functions against a reference-semantics post-condition; Kani cross-checks on the unextracted code",
  "level_text": "Deductive proof (Verus/Z3) for every chain length, every application order and every word count: eval_binary's result equals the nearest-live-neighbour reference reduction, both NumberTracker impls satisfy the trait's bit-view contract, eval_numbers meets eval_binary's pre-condition in both branches. The verified text is cut from /repo on every run.",
  "level_note": "Trusted: Verus+Z3; assume_specification for rotate_right/leading_ones/trailing_ones (re-checked for all usize by a complete Kani harness) and mem::take; operators are deterministic (A1); SmallVec~Vec; one external_body delegation (Verus quirk) with its implication lemma; deep.rs call site and flatex_to_deepex's inlined loop not covered.",
 },
}

NOT_APPLICABLE = {
 "C01": "pending in this build (see DESIGN §5)",
 "C02": "constant folding lives in FlatEx::compile / DeepEx::compile: SmallVec surgery, closures, iterator chains and fn pointers are outside Verus; Kani did not finish a 3-node compile()+eval in 6 min; no contract in reach speaks about folding (DESIGN §9)",
 "C03": "every clause goes through make_expression / deep::make_expression / flatex_to_deepex / flatten_vecs and the regex tokenizer; neither verifier can execute them at an affordable cost (DESIGN §9)",
 "C04": "pending in this build",
 "C05": "needs real analysis over closures on DeepEx trees with String fields; floats/transcendentals are outside both verifiers (DESIGN §9)",
 "C06": "totality over all UTF-8 strings is a statement about the regex tokenizer and both parsers; only leaf obligations are provable and are reported under C14/C17/C13 (DESIGN §9)",
 "C07": "pending in this build",
 "C08": "the comma rewrite is state inside the tokenizer loop; it cannot be cut out mechanically and a re-typed copy would be a model (DESIGN §9)",
 "C09": "pending in this build",
 "C10": "histories of DeepEx constructions (operator table rebuilt and expression re-printed on every call): out of budget for Kani, out of language for Verus (DESIGN §9)",
 "C11": "same as C10: substitution is recursive DeepEx surgery with String names (DESIGN §9)",
 "C12": "about Debug/format! output being re-tokenisable: formatting is stubbed in Kani and unsupported in Verus (DESIGN §9)",
 "C13": "pending in this build",
 "C15": "pending in this build",
 "C16": "pending in this build",
 "C17": "pending in this build",
 "C18": "C05 over the value type (DESIGN §9)",
 "C19": "pending in this build",
 "C20": "quantifies over thread interleavings; Kani has no threads, Verus would need its own permission types; Send+Sync is discharged by rustc, not by this family (DESIGN §9)",
}
