"""generate a Verus unit from /repo's working tree, run Verus, classify the outcome"""
import json
import os
import re
import sys
from concurrent.futures import ThreadPoolExecutor

from common import VERIF, REPO, BUILD, VERUS_TIMEOUT_S, Undecided, run, log

sys.path.insert(0, os.path.join(VERIF, "extract"))
import units as units_mod          # noqa: E402
from weave import WeaveError, scan_assumptions   # noqa: E402

VDIR = os.path.join(BUILD, "verus")

# messages Verus uses for failed proof obligations (everything else at level error is a
# compile / support problem -> undecided)
VERIFICATION_FAILURES = [
    "precondition not satisfied", "postcondition not satisfied", "assertion failed",
    "invariant not satisfied before loop", "invariant not satisfied at end of loop body",
    "loop invariant not satisfied", "possible arithmetic underflow/overflow", "possible division by zero",
    "possible bit shift underflow/overflow", "decreases not satisfied", "index out of bounds",
    "assertion failed", "possible arithmetic underflow", "possible arithmetic overflow",
    "loop ensures not satisfied", "invariant not satisfied", "unable to prove", "failed this postcondition",
    "cannot show invariant holds", "termination", "might not be allowed at this call-site", "precondition not met",
]
TOOL_LIMIT = ["rlimit", "resource limit", "timed out", "solver"]


def _enclosing_fn(text_lines, line_no):
    """name of the function containing generated line `line_no`; methods are qualified by their impl
    target / trait (`usize::ignore`, `[usize]::max_len`, `NumberTracker::consume_next`)"""
    def strip(l):
        return l.split("//")[0]
    for i in range(min(line_no, len(text_lines)) - 1, -1, -1):
        m = re.search(r"\bfn\s+(\w+)", strip(text_lines[i]))
        if m:
            name = m.group(1)
            depth = 0
            for j in range(i - 1, -1, -1):
                lj = strip(text_lines[j])
                depth += lj.count("}") - lj.count("{")
                if depth < 0:
                    # line j opens the block that contains the function (its header may span a few lines: where clauses)
                    hdr = " ".join(strip(x).strip() for x in text_lines[max(0, j - 4):j + 1])
                    hdr = hdr[max(hdr.rfind("impl<"), hdr.rfind("impl "), hdr.rfind("trait "), 0):]
                    mi = re.match(r"^\s*impl\b.*\bfor\s+(.+?)\s*(?:where\b.*)?\{", hdr) or re.match(r"^\s*impl(?:<[^>]*>)?\s+([\w\[\]]+(?:<[^>]*>)?)\s*(?:where\b.*)?\{", hdr)
                    mt = re.match(r"^\s*(?:pub\s+)?trait\s+(\w+)", hdr)
                    if mi:
                        return "%s::%s" % (mi.group(1).strip(), name)
                    if mt:
                        return "%s::%s" % (mt.group(1), name)
                    return name
            return name
    return "?"


def _run_verus(path, extra=()):
    cmd = ["verus", os.path.basename(path), "--output-json", "--time", "--triggers-mode", "silent",
           "--error-format=json", "--num-threads", "8", "--multiple-errors", "8"] + list(extra)
    rc, out, err, dt = run(cmd, cwd=os.path.dirname(path), timeout=VERUS_TIMEOUT_S)
    try:
        j = json.loads(out)
    except Exception:
        j = None
    diags = []
    for line in err.split("\n"):
        line = line.strip()
        if line.startswith("{"):
            try:
                diags.append(json.loads(line))
            except Exception:
                pass
    return rc, j, diags, err, dt


def _classify(diags, gen_lines, unit_file="u123.rs"):
    failures, problems = [], []
    for d in diags:
        if d.get("level") != "error":
            continue
        msg = d.get("message", "")
        if msg.startswith("aborting due to"):
            continue
        spans = []
        for sp in d.get("spans", []):
            # a span inside a macro expansion (assert!, debug_assert!) is mapped to its call site
            cur = sp
            hops = 0
            while cur and os.path.basename(cur.get("file_name", "")) != unit_file and cur.get("expansion") and hops < 8:
                nxt = dict(cur["expansion"].get("span") or {})
                nxt.setdefault("is_primary", cur.get("is_primary"))
                nxt["is_primary"] = cur.get("is_primary")
                nxt.setdefault("label", cur.get("label"))
                cur = nxt
                hops += 1
            spans.append(cur or sp)
        own = [x for x in spans if os.path.basename(x.get("file_name", "")) == unit_file]
        prim = [x for x in own if x.get("is_primary")] or own[:1]
        labels = [x for x in own if x not in prim]
        other = [x for x in spans if x not in own]
        line = prim[0]["line_start"] if prim else 0
        ptext = prim[0]["text"][0]["text"].strip() if prim and prim[0].get("text") else ""
        ltext = labels[0]["text"][0]["text"].strip() if labels and labels[0].get("text") else ""
        lline = labels[0]["line_start"] if labels else 0
        if not ltext and other:
            ltext = "%s (%s:%s)" % (other[0].get("label") or "clause of a library contract", other[0].get("file_name"), other[0].get("line_start"))
        body_span = [x for x in labels if "end of the function body" in (x.get("label") or "")]
        fn_line = body_span[0]["line_start"] if body_span else line
        entry = {"message": msg, "function": _enclosing_fn(gen_lines, fn_line), "line": line, "at": ptext,
                 "clause": ltext, "clause_line": lline, "label": labels[0].get("label") if labels else None,
                 "rendered": d.get("rendered", "")[:1500]}
        low = msg.lower()
        if any(t in low for t in TOOL_LIMIT) and not any(v in low for v in ("precondition", "postcondition", "assertion", "invariant")):
            problems.append(entry)
        elif any(v in low for v in VERIFICATION_FAILURES):
            failures.append(entry)
        else:
            problems.append(entry)
    return failures, problems


def obligation_name(unit, f):
    clause = f["clause"] or f["at"]
    clause = re.sub(r"\s+", " ", clause)[:140]
    return "%s::%s: %s [%s]" % (unit, f["function"], f["message"], clause)


def run_unit(unit, canaries=True):
    """-> dict(status ok|failed, verified, errors, failures[], functions[], rewrites, scan, time_s,
    canaries{target: rejected?}, items[])   raises Undecided"""
    os.makedirs(VDIR, exist_ok=True)
    try:
        u, text = units_mod.UNITS[unit](REPO)
    except WeaveError as e:
        raise Undecided("verus unit %s: extraction failed: %s" % (unit, e))
    path = os.path.join(VDIR, unit + ".rs")
    with open(path, "w") as f:
        f.write(text)
    gen_lines = text.split("\n")

    # assumption scan against the committed allow-list
    scan = scan_assumptions(text)
    allow_path = os.path.join(VERIF, "contracts", unit + ".allow.json")
    try:
        allow = json.load(open(allow_path))
    except Exception as e:
        raise Undecided("verus unit %s: allow-list %s unreadable: %s" % (unit, allow_path, e))
    got = sorted((s["construct"], s["text"]) for s in scan)
    want = sorted((s["construct"], s["text"]) for s in allow)
    if got != want:
        extra = [g for g in got if g not in want]
        missing = [w for w in want if w not in got]
        raise Undecided("verus unit %s: assumption scan differs from allow-list; unexpected=%s missing=%s" % (unit, extra, missing))

    rc, j, diags, err, dt = _run_verus(path)
    if j is None:
        raise Undecided("verus unit %s: no JSON result (rc=%s): %s" % (unit, rc, err[-800:]))
    vr = j.get("verification-results", {})
    failures, problems = _classify(diags, gen_lines, os.path.basename(path))
    if vr.get("encountered-vir-error") or problems or (rc != 0 and not failures):
        why = "; ".join("%s @ %s:%d `%s`" % (p["message"], unit, p["line"], p["at"]) for p in problems) or err[-800:]
        raise Undecided("verus unit %s: not a verification verdict (unsupported construct, hint no longer type-checks, or tool limit): %s" % (unit, why))
    items = []
    smt = j.get("times-ms", {}).get("smt", {})
    for mod in smt.get("smt-run-module-times", []) if isinstance(smt, dict) else []:
        for fb in mod.get("function-breakdown", []):
            items.append({"function": fb.get("function"), "mode": fb.get("mode:") or fb.get("mode"), "ms": fb.get("time"), "success": fb.get("success")})
    res = {"unit": unit, "file": path, "status": "ok" if rc == 0 and not failures else "failed",
           "verified": vr.get("verified", 0), "errors": vr.get("errors", 0), "failures": failures,
           "functions": u.functions, "rewrites": u.rw.hits, "scan": scan, "time_s": dt, "items": items,
           "smt_ms": j.get("times-ms", {}).get("smt", {}).get("smt-run") if isinstance(j.get("times-ms", {}).get("smt"), dict) else None,
           "verus_version": j.get("verus", {}).get("version"), "canaries": {}}
    for f in failures:
        f["obligation"] = obligation_name(unit, f)

    if canaries and res["status"] == "ok":
        targets = sorted(set(u.canary_targets))

        def one(t):
            try:
                _, ctext = units_mod.UNITS[unit](REPO, canary=t)
            except WeaveError as e:
                return t, None, "weave: %s" % e
            cpath = os.path.join(VDIR, "%s_canary_%s.rs" % (unit, re.sub(r"\W+", "_", t)))
            with open(cpath, "w") as fh:
                fh.write(ctext)
            crc, cj, cdiags, cerr, _ = _run_verus(cpath)
            cf, cp = _classify(cdiags, ctext.split("\n"), os.path.basename(cpath))
            rejected = crc != 0 and any("postcondition" in x["message"] for x in cf)
            try:
                os.remove(cpath)
            except OSError:
                pass
            return t, rejected, ""

        with ThreadPoolExecutor(max_workers=4) as ex:
            for t, rejected, why in ex.map(one, targets):
                res["canaries"][t] = bool(rejected)
                if not rejected:
                    raise Undecided("verus unit %s: vacuity guard tripped: `ensures false` on %s was NOT rejected %s" % (unit, t, why))
    return res
