// GENERATED on every run by /verif/extract/gen_tables.py from /repo/src/operators.rs — DO NOT EDIT.
// One generic function per entry of FloatOpsFactory::make(), expression text cut from the source;
// the generic parameter list is the impl block's own.
#![allow(unused_imports, non_snake_case, clippy::all)]
use num::Float;
use std::fmt::Debug;
pub struct Entry { pub repr: &'static str, pub ctor: &'static str, pub apply_src: &'static str, pub unary_src: &'static str, pub prio: Option<i64>, pub comm: Option<bool> }
/// static-dispatch call helpers: give the entry expression its expected signature without coercing it to a `fn` pointer (G4)
#[inline(always)]
pub fn call2<T, G: Fn(T, T) -> T>(g: G, a: T, b: T) -> T { g(a, b) }
#[inline(always)]
pub fn call1<T, G: Fn(T) -> T>(g: G, a: T) -> T { g(a) }
pub const TABLE: &[Entry] = &[
    Entry { repr: "^", ctor: "make_bin", apply_src: "|a, b| a.powf(b)", unary_src: "", prio: Some(4), comm: Some(false) },
    Entry { repr: "*", ctor: "make_bin", apply_src: "|a, b| a * b", unary_src: "", prio: Some(2), comm: Some(true) },
    Entry { repr: "/", ctor: "make_bin", apply_src: "|a, b| a / b", unary_src: "", prio: Some(3), comm: Some(false) },
    Entry { repr: "+", ctor: "make_bin_unary", apply_src: "|a, b| a + b", unary_src: "|a| a", prio: Some(0), comm: Some(true) },
    Entry { repr: "-", ctor: "make_bin_unary", apply_src: "|a, b| a - b", unary_src: "|a| -a", prio: Some(1), comm: Some(false) },
    Entry { repr: "atan2", ctor: "make_bin", apply_src: "|y, x| y.atan2(x)", unary_src: "", prio: Some(0), comm: Some(false) },
    Entry { repr: "min", ctor: "make_bin", apply_src: "|y, x| y.min(x)", unary_src: "", prio: Some(0), comm: Some(false) },
    Entry { repr: "max", ctor: "make_bin", apply_src: "|y, x| y.max(x)", unary_src: "", prio: Some(0), comm: Some(false) },
    Entry { repr: "abs", ctor: "make_unary", apply_src: "", unary_src: "|a| a.abs()", prio: None, comm: None },
    Entry { repr: "signum", ctor: "make_unary", apply_src: "", unary_src: "|a| a.signum()", prio: None, comm: None },
    Entry { repr: "sin", ctor: "make_unary", apply_src: "", unary_src: "|a| a.sin()", prio: None, comm: None },
    Entry { repr: "cos", ctor: "make_unary", apply_src: "", unary_src: "|a| a.cos()", prio: None, comm: None },
    Entry { repr: "tan", ctor: "make_unary", apply_src: "", unary_src: "|a| a.tan()", prio: None, comm: None },
    Entry { repr: "asin", ctor: "make_unary", apply_src: "", unary_src: "|a| a.asin()", prio: None, comm: None },
    Entry { repr: "acos", ctor: "make_unary", apply_src: "", unary_src: "|a| a.acos()", prio: None, comm: None },
    Entry { repr: "atan", ctor: "make_unary", apply_src: "", unary_src: "|a| a.atan()", prio: None, comm: None },
    Entry { repr: "sinh", ctor: "make_unary", apply_src: "", unary_src: "|a| a.sinh()", prio: None, comm: None },
    Entry { repr: "cosh", ctor: "make_unary", apply_src: "", unary_src: "|a| a.cosh()", prio: None, comm: None },
    Entry { repr: "tanh", ctor: "make_unary", apply_src: "", unary_src: "|a| a.tanh()", prio: None, comm: None },
    Entry { repr: "asinh", ctor: "make_unary", apply_src: "", unary_src: "|a| a.asinh()", prio: None, comm: None },
    Entry { repr: "acosh", ctor: "make_unary", apply_src: "", unary_src: "|a| a.acosh()", prio: None, comm: None },
    Entry { repr: "atanh", ctor: "make_unary", apply_src: "", unary_src: "|a| a.atanh()", prio: None, comm: None },
    Entry { repr: "floor", ctor: "make_unary", apply_src: "", unary_src: "|a| a.floor()", prio: None, comm: None },
    Entry { repr: "round", ctor: "make_unary", apply_src: "", unary_src: "|a| a.round()", prio: None, comm: None },
    Entry { repr: "ceil", ctor: "make_unary", apply_src: "", unary_src: "|a| a.ceil()", prio: None, comm: None },
    Entry { repr: "trunc", ctor: "make_unary", apply_src: "", unary_src: "|a| a.trunc()", prio: None, comm: None },
    Entry { repr: "fract", ctor: "make_unary", apply_src: "", unary_src: "|a| a.fract()", prio: None, comm: None },
    Entry { repr: "exp", ctor: "make_unary", apply_src: "", unary_src: "|a| a.exp()", prio: None, comm: None },
    Entry { repr: "sqrt", ctor: "make_unary", apply_src: "", unary_src: "|a| a.sqrt()", prio: None, comm: None },
    Entry { repr: "cbrt", ctor: "make_unary", apply_src: "", unary_src: "|a| a.cbrt()", prio: None, comm: None },
    Entry { repr: "ln", ctor: "make_unary", apply_src: "", unary_src: "|a| a.ln()", prio: None, comm: None },
    Entry { repr: "log2", ctor: "make_unary", apply_src: "", unary_src: "|a| a.log2()", prio: None, comm: None },
    Entry { repr: "log10", ctor: "make_unary", apply_src: "", unary_src: "|a| a.log10()", prio: None, comm: None },
    Entry { repr: "log", ctor: "make_unary", apply_src: "", unary_src: "|a| a.ln()", prio: None, comm: None },
    Entry { repr: "PI", ctor: "make_constant", apply_src: "", unary_src: "", prio: None, comm: None },
    Entry { repr: "π", ctor: "make_constant", apply_src: "", unary_src: "", prio: None, comm: None },
    Entry { repr: "E", ctor: "make_constant", apply_src: "", unary_src: "", prio: None, comm: None },
    Entry { repr: "e", ctor: "make_constant", apply_src: "", unary_src: "", prio: None, comm: None },
    Entry { repr: "TAU", ctor: "make_constant", apply_src: "", unary_src: "", prio: None, comm: None },
    Entry { repr: "τ", ctor: "make_constant", apply_src: "", unary_src: "", prio: None, comm: None },
];
/// binary entry `^` of the float table
pub fn e_caret_bin<T: Debug + Float>(a: T, b: T) -> T  {
    call2::<T, _>(|a, b| a.powf(b), a, b)
}
/// binary entry `*` of the float table
pub fn e_star_bin<T: Debug + Float>(a: T, b: T) -> T  {
    call2::<T, _>(|a, b| a * b, a, b)
}
/// binary entry `/` of the float table
pub fn e_slash_bin<T: Debug + Float>(a: T, b: T) -> T  {
    call2::<T, _>(|a, b| a / b, a, b)
}
/// binary entry `+` of the float table
pub fn e_plus_bin<T: Debug + Float>(a: T, b: T) -> T  {
    call2::<T, _>(|a, b| a + b, a, b)
}
/// unary entry `+` of the float table
pub fn e_plus_un<T: Debug + Float>(a: T) -> T  {
    call1::<T, _>(|a| a, a)
}
/// binary entry `-` of the float table
pub fn e_minus_bin<T: Debug + Float>(a: T, b: T) -> T  {
    call2::<T, _>(|a, b| a - b, a, b)
}
/// unary entry `-` of the float table
pub fn e_minus_un<T: Debug + Float>(a: T) -> T  {
    call1::<T, _>(|a| -a, a)
}
/// binary entry `atan2` of the float table
pub fn e_atan2_bin<T: Debug + Float>(a: T, b: T) -> T  {
    call2::<T, _>(|y, x| y.atan2(x), a, b)
}
/// binary entry `min` of the float table
pub fn e_min_bin<T: Debug + Float>(a: T, b: T) -> T  {
    call2::<T, _>(|y, x| y.min(x), a, b)
}
/// binary entry `max` of the float table
pub fn e_max_bin<T: Debug + Float>(a: T, b: T) -> T  {
    call2::<T, _>(|y, x| y.max(x), a, b)
}
/// unary entry `abs` of the float table
pub fn e_abs_un<T: Debug + Float>(a: T) -> T  {
    call1::<T, _>(|a| a.abs(), a)
}
/// unary entry `signum` of the float table
pub fn e_signum_un<T: Debug + Float>(a: T) -> T  {
    call1::<T, _>(|a| a.signum(), a)
}
/// unary entry `sin` of the float table
pub fn e_sin_un<T: Debug + Float>(a: T) -> T  {
    call1::<T, _>(|a| a.sin(), a)
}
/// unary entry `cos` of the float table
pub fn e_cos_un<T: Debug + Float>(a: T) -> T  {
    call1::<T, _>(|a| a.cos(), a)
}
/// unary entry `tan` of the float table
pub fn e_tan_un<T: Debug + Float>(a: T) -> T  {
    call1::<T, _>(|a| a.tan(), a)
}
/// unary entry `asin` of the float table
pub fn e_asin_un<T: Debug + Float>(a: T) -> T  {
    call1::<T, _>(|a| a.asin(), a)
}
/// unary entry `acos` of the float table
pub fn e_acos_un<T: Debug + Float>(a: T) -> T  {
    call1::<T, _>(|a| a.acos(), a)
}
/// unary entry `atan` of the float table
pub fn e_atan_un<T: Debug + Float>(a: T) -> T  {
    call1::<T, _>(|a| a.atan(), a)
}
/// unary entry `sinh` of the float table
pub fn e_sinh_un<T: Debug + Float>(a: T) -> T  {
    call1::<T, _>(|a| a.sinh(), a)
}
/// unary entry `cosh` of the float table
pub fn e_cosh_un<T: Debug + Float>(a: T) -> T  {
    call1::<T, _>(|a| a.cosh(), a)
}
/// unary entry `tanh` of the float table
pub fn e_tanh_un<T: Debug + Float>(a: T) -> T  {
    call1::<T, _>(|a| a.tanh(), a)
}
/// unary entry `asinh` of the float table
pub fn e_asinh_un<T: Debug + Float>(a: T) -> T  {
    call1::<T, _>(|a| a.asinh(), a)
}
/// unary entry `acosh` of the float table
pub fn e_acosh_un<T: Debug + Float>(a: T) -> T  {
    call1::<T, _>(|a| a.acosh(), a)
}
/// unary entry `atanh` of the float table
pub fn e_atanh_un<T: Debug + Float>(a: T) -> T  {
    call1::<T, _>(|a| a.atanh(), a)
}
/// unary entry `floor` of the float table
pub fn e_floor_un<T: Debug + Float>(a: T) -> T  {
    call1::<T, _>(|a| a.floor(), a)
}
/// unary entry `round` of the float table
pub fn e_round_un<T: Debug + Float>(a: T) -> T  {
    call1::<T, _>(|a| a.round(), a)
}
/// unary entry `ceil` of the float table
pub fn e_ceil_un<T: Debug + Float>(a: T) -> T  {
    call1::<T, _>(|a| a.ceil(), a)
}
/// unary entry `trunc` of the float table
pub fn e_trunc_un<T: Debug + Float>(a: T) -> T  {
    call1::<T, _>(|a| a.trunc(), a)
}
/// unary entry `fract` of the float table
pub fn e_fract_un<T: Debug + Float>(a: T) -> T  {
    call1::<T, _>(|a| a.fract(), a)
}
/// unary entry `exp` of the float table
pub fn e_exp_un<T: Debug + Float>(a: T) -> T  {
    call1::<T, _>(|a| a.exp(), a)
}
/// unary entry `sqrt` of the float table
pub fn e_sqrt_un<T: Debug + Float>(a: T) -> T  {
    call1::<T, _>(|a| a.sqrt(), a)
}
/// unary entry `cbrt` of the float table
pub fn e_cbrt_un<T: Debug + Float>(a: T) -> T  {
    call1::<T, _>(|a| a.cbrt(), a)
}
/// unary entry `ln` of the float table
pub fn e_ln_un<T: Debug + Float>(a: T) -> T  {
    call1::<T, _>(|a| a.ln(), a)
}
/// unary entry `log2` of the float table
pub fn e_log2_un<T: Debug + Float>(a: T) -> T  {
    call1::<T, _>(|a| a.log2(), a)
}
/// unary entry `log10` of the float table
pub fn e_log10_un<T: Debug + Float>(a: T) -> T  {
    call1::<T, _>(|a| a.log10(), a)
}
/// unary entry `log` of the float table
pub fn e_log_un<T: Debug + Float>(a: T) -> T  {
    call1::<T, _>(|a| a.ln(), a)
}
/// constant `PI` of the float table
pub fn e_PI_const<T: Debug + Float>() -> T  {
    T::from(std::f64::consts::PI).unwrap()
}
/// constant `π` of the float table
pub fn e_u03c0_const<T: Debug + Float>() -> T  {
    T::from(std::f64::consts::PI).unwrap()
}
/// constant `E` of the float table
pub fn e_E_const<T: Debug + Float>() -> T  {
    T::from(std::f64::consts::E).unwrap()
}
/// constant `e` of the float table
pub fn e_e_const<T: Debug + Float>() -> T  {
    T::from(std::f64::consts::E).unwrap()
}
/// constant `TAU` of the float table
pub fn e_TAU_const<T: Debug + Float>() -> T  {
    T::from(std::f64::consts::TAU).unwrap()
}
/// constant `τ` of the float table
pub fn e_u03c4_const<T: Debug + Float>() -> T  {
    T::from(std::f64::consts::TAU).unwrap()
}
