//! C13 — lexical rules of `parser::tokenize_and_analyze` (exact operator-name match with identifier look-ahead,
//! longest operator name wins, number literals, braces) against a reference tokenizer written from the
//! property text.
//!
//! NATIVE ONLY: the tokenizer runs on `regex` and `lazy_static`, far outside CBMC's reach.  The contract body is
//! executed by `exmex_replay --exhaust` on EVERY text that is a concatenation of up to L pieces of a 26-piece
//! palette (operator and constant names, their extensions by digits / letters / Greek letters, numbers, blanks,
//! parentheses, a braced name), for two operator tables: one shaped like the default table, one in which a
//! BINARY operator's name is a prefix of unary operator names.  Bounded stand-in, not a proof.
use crate::src::Src;
use exmex::verif_hooks::*;
use exmex::{BinOp, Operator};

const PIECES: [&str; 26] = ["\u{a0}", "ά", "distance", "sin", "log", "log2", "log10", "2", "4", ".5", "x", "PI", "E", "Ω", "α", "_", "(", ")", " ", "<", "<=", "=", "-", "min", "{a b}", "e"];

fn b(a: f64, _b: f64) -> f64 { a }
fn u(a: f64) -> f64 { a }
fn table(k: u8) -> Vec<Operator<'static, f64>> {
    let bin = |p| BinOp { apply: b as fn(f64, f64) -> f64, prio: p, is_commutative: false };
    let mut v = vec![
        Operator::make_unary("sin", u), Operator::make_unary("log2", u), Operator::make_unary("log10", u),
        Operator::make_bin("<", bin(1)), Operator::make_bin("<=", bin(1)), Operator::make_bin_unary("-", bin(2), u),
        Operator::make_bin("min", bin(3)), Operator::make_constant("PI", 3.25), Operator::make_constant("E", 2.75),
    ];
    // table 0: `log` is unary (as in the default table); table 1: `log` is BINARY and a prefix of log2 / log10.
    // Both tables have the same length, and a pair of long prefix-related names listed shorter-first.
    if k == 0 {
        v.insert(1, Operator::make_unary("log", u));
        v.push(Operator::make_unary("distance", u)); v.push(Operator::make_unary("distance2", u));
    } else {
        v.push(Operator::make_bin("distance", bin(5))); v.push(Operator::make_bin("distance2", bin(5)));
        v.push(Operator::make_bin("log", bin(4)));
    }
    v
}
fn ident_start(c: char) -> bool { c.is_ascii_alphabetic() || c == '_' || ('α'..='ω').contains(&c) || ('Α'..='Ω').contains(&c) }
fn ident_cont(c: char) -> bool { ident_start(c) || c.is_ascii_digit() }
fn is_ident(t: &str) -> bool {
    let mut it = t.chars();
    match it.next() { Some(c) if ident_start(c) => it.all(ident_cont), _ => false }
}

/// reference tokenizer, from the property text; `None` = "not a token sequence" (the real tokenizer must report an error)
fn reference(text: &str, ops: &[Operator<'static, f64>]) -> Option<Vec<String>> {
    let mut out = vec![];
    let mut rest = text;
    loop {
        rest = rest.trim_start_matches(' ');
        let Some(c) = rest.chars().next() else { return Some(out) };
        if c == '(' || c == ')' { out.push(c.to_string()); rest = &rest[1..]; continue; }
        if c == '{' {
            // anything in curly braces is one variable
            let end = rest.find('}')?;
            out.push(format!("V:{}", &rest[1..end]));
            rest = &rest[end + 1..];
            continue;
        }
        // number literal: digits with at most one inner, leading or trailing dot
        let n = rest.bytes().take_while(|x| x.is_ascii_digit() || *x == b'.').count();
        let (digits, dots) = (rest[..n].bytes().filter(|x| x.is_ascii_digit()).count(), rest[..n].bytes().filter(|x| *x == b'.').count());
        if digits >= 1 && dots <= 1 {
            out.push(format!("N:{:?}", rest[..n].parse::<f64>().ok()?));
            rest = &rest[n..];
            continue;
        }
        // operator / constant: exact name, the longest one wins; a name without a binary role must not be
        // continued by a further identifier character
        let mut best: Option<&Operator<'static, f64>> = None;
        for op in ops {
            let name = op.repr();
            if !rest.starts_with(name) { continue; }
            let after = &rest[name.len()..];
            let continued = match after.chars().next() { Some(nc) => is_ident(name) && ident_cont(nc), None => false };
            if op.has_bin() || !continued {
                if best.map_or(true, |o| o.repr().len() < name.len()) { best = Some(op); }
            }
        }
        if let Some(op) = best {
            out.push(match op.constant() { Some(v) => format!("N:{:?}", v), None => format!("O:{}", op.repr()) });
            rest = &rest[op.repr().len()..];
            continue;
        }
        // variable: a maximal identifier
        if ident_start(c) {
            let n: usize = rest.chars().take_while(|x| ident_cont(*x)).map(|x| x.len_utf8()).sum();
            out.push(format!("V:{}", &rest[..n]));
            rest = &rest[n..];
            continue;
        }
        return None;
    }
}

fn lexical<S: Src, const L: usize>(s: &mut S, only_reject: bool) {
    // every run tokenises the text with BOTH tables, in either order: a result must not depend on what was
    // tokenised before (two-call histories; a failure is then reproducible by replaying the single run)
    let first = s.choice(2);
    let mut text = String::new();
    for _ in 0..L { text.push_str(PIECES[s.choice(26) as usize]); }
    let text: &'static str = Box::leak(text.into_boxed_str());
    for k in [first, 1 - first] {
        let ops = table(k);
        let want = reference(text, &ops);
        let got = tokenize_and_analyze(text, &ops, is_numeric_text);
        match (want, got) {
            (None, r) => {
                if only_reject { assert!(r.is_err(), "C07 a text containing a character sequence that is neither number, operator, variable nor bracket is rejected"); }
                else { assert!(r.is_err(), "C13 a character sequence that is neither number, operator, variable nor bracket is an error"); }
            }
            _ if only_reject => {}
            (Some(_), Err(_)) => assert!(false, "C13 a text made of numbers, operators, variables and brackets tokenises without error"),
            (Some(w), Ok(toks)) => {
                let g: Vec<String> = toks.iter().map(|t| match t {
                    ParsedToken::Num(v) => format!("N:{:?}", v),
                    ParsedToken::Var(n) => format!("V:{}", n),
                    ParsedToken::Op((_, o)) => format!("O:{}", o.repr()),
                    ParsedToken::Paren(Paren::Open) => "(".to_string(),
                    ParsedToken::Paren(Paren::Close) => ")".to_string(),
                }).collect();
                if g != w && std::env::var("C13_DEBUG").is_ok() { eprintln!("table={} text={:?} want={:?} got={:?}", k, text, w, g); }
                assert!(g == w, "C13 operator names match exactly (no identifier continuation), the longest operator name wins, numbers are digits with at most one dot, braces enclose one variable");
            }
        }
    }
}
pub fn lexical_1<S: Src>(s: &mut S) { lexical::<S, 1>(s, false) }
pub fn lexical_2<S: Src>(s: &mut S) { lexical::<S, 2>(s, false) }
pub fn lexical_3<S: Src>(s: &mut S) { lexical::<S, 3>(s, false) }
pub fn lexical_4<S: Src>(s: &mut S) { lexical::<S, 4>(s, false) }
pub fn lexical_5<S: Src>(s: &mut S) { lexical::<S, 5>(s, false) }
/// C07's clause only (unknown character sequences are rejected); `ά` (U+03AC) lies between the two Greek ranges,
/// U+00A0 is a blank-like character wider than one byte that is NOT the blank the tokenizer skips
pub fn unknown_rejected_2<S: Src>(s: &mut S) { lexical::<S, 2>(s, true) }
pub fn unknown_rejected_3<S: Src>(s: &mut S) { lexical::<S, 3>(s, true) }
pub fn unknown_rejected_4<S: Src>(s: &mut S) { lexical::<S, 4>(s, true) }

registry!("c13", unknown_rejected_2, unknown_rejected_3, unknown_rejected_4, lexical_1, lexical_2, lexical_3, lexical_4, lexical_5);
