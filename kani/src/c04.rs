//! C04 — arity guards and index binding of the flat form: for a `FlatEx` over two variable names
//! whose single node is a symbolic variable index, and value slices of symbolic length 0..=4 with
//! symbolic values: `eval` is `Err` iff the length is not 2, `eval_relaxed` is `Err` iff it is below
//! 2, and an `Ok` result is exactly the value at the node's index — never another one, never a panic.
#[allow(unused_imports)]
use crate::src::Src;
use exmex::prelude::*;
use exmex::verif_hooks::*;
use exmex::FlatEx;
use smallvec::smallvec;

fn one_node(var: usize) -> FlatEx<i32, DummyOps> {
    let nodes = smallvec![FlatNode { kind: FlatNodeKind::Var(var), unary_op: UnaryOp::new() }];
    FlatEx::new(nodes, smallvec![], smallvec![], smallvec![String::new(), String::new()], String::new())
}
harness!(arity_eval, unwind = 8, |s| {
    let vals = [s.i32(), s.i32(), s.i32(), s.i32()];
    let var = s.choice(2) as usize;
    let k = s.range_usize(0, 4);
    let ex = one_node(var);
    let r = ex.eval(&vals[..k]);
    assert!(r.is_err() == (k != 2), "C04 eval with the wrong number of values is an error, with the right number it is not");
    if let Ok(v) = &r { assert!(*v == vals[var], "C04 the n-th value is bound to the n-th variable"); }
    cover!(s, k == 2, "right number of values");
    core::mem::forget((r, ex));
});
harness!(arity_eval_relaxed, unwind = 8, |s| {
    let vals = [s.i32(), s.i32(), s.i32(), s.i32()];
    let var = s.choice(2) as usize;
    let k = s.range_usize(0, 4);
    let ex = one_node(var);
    let rr = ex.eval_relaxed(&vals[..k]);
    assert!(rr.is_err() == (k < 2), "C04 eval_relaxed ignores surplus values and rejects too few");
    if let Ok(v) = &rr { assert!(*v == vals[var], "C04 eval_relaxed binds the n-th value to the n-th variable"); }
    cover!(s, k == 4, "surplus values");
    core::mem::forget((rr, ex));
});

// eval_vec / eval_iter: one harness per (concrete) number of passed values — a symbolic length inside the
// Vec / iterator construction did not finish in 15 min
fn vec_case<S: Src>(s: &mut S, k: usize) {
    let vals = [s.i32(), s.i32(), s.i32()];
    let var = s.choice(2) as usize;
    let ex = one_node(var);
    let v: Vec<i32> = match k { 1 => vec![vals[0]], 2 => vec![vals[0], vals[1]], _ => vec![vals[0], vals[1], vals[2]] };
    let r = ex.eval_vec(v);
    assert!(r.is_err() == (k != 2), "C04 eval_vec with the wrong number of values is an error, with the right number it is not");
    if let Ok(x) = &r { assert!(*x == vals[var], "C04 eval_vec binds the n-th value to the n-th variable"); }
    core::mem::forget((r, ex));
}
fn iter_case<S: Src>(s: &mut S, k: usize) {
    let vals = [s.i32(), s.i32(), s.i32()];
    let var = s.choice(2) as usize;
    let ex = one_node(var);
    let r = match k {
        1 => ex.eval_iter([vals[0]].into_iter()),
        2 => ex.eval_iter([vals[0], vals[1]].into_iter()),
        _ => ex.eval_iter([vals[0], vals[1], vals[2]].into_iter()),
    };
    assert!(r.is_err() == (k != 2), "C04 eval_iter with the wrong number of values is an error, with the right number it is not");
    if let Ok(x) = &r { assert!(*x == vals[var], "C04 eval_iter binds the n-th value to the n-th variable"); }
    core::mem::forget((r, ex));
}
harness!(arity_eval_vec_1, unwind = 8, |s| { vec_case(s, 1) });
harness!(arity_eval_vec_2, unwind = 8, |s| { vec_case(s, 2) });
harness!(arity_eval_vec_3, unwind = 8, |s| { vec_case(s, 3) });
harness!(arity_eval_iter_1, unwind = 8, |s| { iter_case(s, 1) });
harness!(arity_eval_iter_2, unwind = 8, |s| { iter_case(s, 2) });
harness!(arity_eval_iter_3, unwind = 8, |s| { iter_case(s, 3) });

#[derive(Clone, Debug)]
pub struct DummyOps;
impl exmex::MakeOperators<i32> for DummyOps {
    fn make<'a>() -> Vec<exmex::Operator<'a, i32>> { vec![] }
}

/// native-only sampled probe: `find_parsed_vars` / `find_var_index` on random token lists over a palette of
/// tricky names: the result lists the distinct names in Rust string order, and every name is found at
/// its position
pub fn var_lookup_probe<S: Src>(s: &mut S) {
    const NAMES: [&str; 12] = ["a", "b", "B", "a1", "_a", "α", "ab", " a", "x y", "👍+👎", "Z", "aa"];
    let n = s.choice(10) as usize;
    let mut toks: Vec<ParsedToken<'static, i32>> = vec![];
    let mut used: Vec<&'static str> = vec![];
    for _ in 0..n {
        if s.choice(4) == 0 { toks.push(ParsedToken::Num(1)); } else { let nm = NAMES[s.choice(12) as usize]; toks.push(ParsedToken::Var(nm)); used.push(nm); }
    }
    let vars = find_parsed_vars(&toks);
    let mut expect: Vec<&str> = used.clone();
    expect.sort();
    expect.dedup();
    assert!(vars.len() == expect.len() && vars.iter().zip(expect.iter()).all(|(a, b)| a == b), "C04 the variables are the distinct names in Rust string order");
    for (i, nm) in expect.iter().enumerate() {
        assert!(find_var_index(nm, &vars) == i, "C04 a name is looked up at its position in the sorted list");
    }
}

/// native-only, for exhaustive enumeration: exactly N tokens, each one of the 12 names or a number
fn var_lookup<S: Src, const N: usize>(s: &mut S) {
    const NAMES: [&str; 12] = ["a", "b", "B", "a1", "_a", "α", "ab", " a", "x y", "👍+👎", "Z", "aa"];
    let mut toks: Vec<ParsedToken<'static, i32>> = vec![];
    let mut used: Vec<&'static str> = vec![];
    for _ in 0..N {
        let c = s.choice(13) as usize;
        if c == 12 { toks.push(ParsedToken::Num(1)); } else { toks.push(ParsedToken::Var(NAMES[c])); used.push(NAMES[c]); }
    }
    let vars = find_parsed_vars(&toks);
    let mut expect: Vec<&str> = used.clone();
    expect.sort();
    expect.dedup();
    assert!(vars.len() == expect.len() && vars.iter().zip(expect.iter()).all(|(a, b)| a == b), "C04 the variables are the distinct names in Rust string order");
    for (i, nm) in expect.iter().enumerate() {
        assert!(find_var_index(nm, &vars) == i, "C04 a name is looked up at its position in the sorted list");
    }
}
pub fn var_lookup_3<S: Src>(s: &mut S) { var_lookup::<S, 3>(s) }
pub fn var_lookup_5<S: Src>(s: &mut S) { var_lookup::<S, 5>(s) }
pub fn var_lookup_6<S: Src>(s: &mut S) { var_lookup::<S, 6>(s) }
pub fn var_lookup_7<S: Src>(s: &mut S) { var_lookup::<S, 7>(s) }

// ---------------------------------------------------------------- native-only contract bodies on the public API (bounded)
// Executed by `exmex_replay --exhaust`; never run under Kani (parse / DeepEx are out of CBMC's reach).
#[cfg(not(kani))]
mod api {
    use crate::src::Src;
    use exmex::prelude::*;
    use exmex::verif_hooks::*;
    use exmex::{DeepEx, ExResult, FlatEx};

    /// name collection beyond the inline capacity of the name SmallVec (16): 20 distinct names in a scrambled
    /// order, followed by 3 enumerated tokens (one of the 20 names or a number)
    pub fn var_lookup_spill<S: Src>(s: &mut S) {
        const NAMES: [&str; 20] = ["n07", "n19", "n00", "n12", "n03", "n16", "n09", "n01", "n18", "n05", "n14", "n02", "n11", "n17", "n04", "n08", "n15", "n06", "n13", "n10"];
        let keep = 15 + s.choice(6) as usize; // 15..=20 distinct names before the enumerated tail
        let mut toks: Vec<ParsedToken<'static, i32>> = vec![];
        let mut used: Vec<&'static str> = vec![];
        for nm in NAMES.iter().take(keep) { toks.push(ParsedToken::Var(nm)); used.push(nm); }
        for _ in 0..3 {
            let c = s.choice(21) as usize;
            if c == 20 { toks.push(ParsedToken::Num(1)); } else { toks.push(ParsedToken::Var(NAMES[c])); used.push(NAMES[c]); }
        }
        let vars = find_parsed_vars(&toks);
        let mut expect: Vec<&str> = used.clone();
        expect.sort();
        expect.dedup();
        assert!(vars.len() == expect.len() && vars.iter().zip(expect.iter()).all(|(a, b)| a == b), "C04 the variables are the distinct names in Rust string order (also beyond 16 names)");
        for (i, nm) in expect.iter().enumerate() {
            assert!(find_var_index(nm, &vars) == i, "C04 a name is looked up at its position in the sorted list");
        }
    }

    fn sum_expr(n: usize) -> String {
        if n == 0 { return "7".to_string(); }
        (0..n).map(|i| format!("{{v{:02}}}*{}", i, i + 1)).collect::<Vec<_>>().join("+")
    }
    /// arity of every evaluation entry point on real parsed expressions with n variables, n around the inline
    /// capacity, called with m = 0..=n+2 values: eval / eval_vec / eval_iter are errors iff m != n, eval_relaxed
    /// iff m < n; an Ok result binds the i-th value to the i-th name
    pub fn arity_api<S: Src>(s: &mut S) {
        const NS: [usize; 8] = [0, 1, 2, 3, 15, 16, 17, 18];
        let n = NS[s.choice(8) as usize];
        let m = s.range_usize(0, n + 2);
        let deep = s.bool();
        let text = sum_expr(n);
        let vals: Vec<f64> = (0..m).map(|i| (i as f64) * 0.5 + 1.0).collect();
        let expect: f64 = if n == 0 { 7.0 } else { (0..n.min(m)).map(|i| ((i as f64) * 0.5 + 1.0) * (i as f64 + 1.0)).sum() };
        let ok = |r: &ExResult<f64>| matches!(r, Ok(v) if (*v - expect).abs() < 1e-9);
        if deep {
            let ex = DeepEx::<f64>::parse(&text).unwrap();
            assert!(ex.var_names().len() == n, "C04 the variables are the distinct names");
            let (r, rr) = (ex.eval(&vals), ex.eval_relaxed(&vals));
            assert!(if m == n { ok(&r) } else { r.is_err() }, "C04 eval with the wrong number of values is an error, with the right number the n-th value is bound to the n-th name (deep form)");
            assert!(if m >= n { ok(&rr) } else { rr.is_err() }, "C04 eval_relaxed ignores surplus values and rejects too few (deep form)");
        } else {
            let ex = FlatEx::<f64>::parse(&text).unwrap();
            assert!(ex.var_names().len() == n, "C04 the variables are the distinct names");
            let (r, rr, rv, ri) = (ex.eval(&vals), ex.eval_relaxed(&vals), ex.eval_vec(vals.clone()), ex.eval_iter(vals.iter().copied()));
            assert!(if m == n { ok(&r) } else { r.is_err() }, "C04 eval with the wrong number of values is an error, with the right number the n-th value is bound to the n-th name");
            assert!(if m >= n { ok(&rr) } else { rr.is_err() }, "C04 eval_relaxed ignores surplus values and rejects too few");
            assert!(if m == n { ok(&rv) } else { rv.is_err() }, "C04 eval_vec with the wrong number of values is an error");
            assert!(if m == n { ok(&ri) } else { ri.is_err() }, "C04 eval_iter with the wrong number of values is an error");
        }
    }

    /// derived expressions: operator application lists the sorted union of the names involved, a derivative exactly
    /// those of its antiderivative; the derived expression keeps the arity guards
    pub fn derived_names<S: Src>(s: &mut S) {
        const EX: [&str; 8] = ["0", "1", "x+{y}", "m", "a+z", "{v 1}*b", "0*q", "sin(x)*x"];
        const OPS: [&str; 4] = ["+", "-", "*", "/"];
        let (ia, ib) = (s.choice(10) as usize, s.choice(10) as usize);
        let mk = |i: usize| -> DeepEx<'static, f64> { if i == 8 { DeepEx::zero() } else if i == 9 { DeepEx::one() } else { DeepEx::parse(EX[i]).unwrap() } };
        let (a, b) = (mk(ia), mk(ib));
        let mut expect: Vec<String> = a.var_names().iter().chain(b.var_names().iter()).cloned().collect();
        expect.sort();
        expect.dedup();
        let op = OPS[s.choice(4) as usize];
        // reference value: both operands evaluated separately, values picked BY NAME
        let value_of = |name: &String| 1.0 + expect.iter().position(|n| n == name).unwrap() as f64 * 0.5;
        let av: Vec<f64> = a.var_names().iter().map(value_of).collect();
        let bv: Vec<f64> = b.var_names().iter().map(value_of).collect();
        let (x, y) = (a.eval(&av).unwrap(), b.eval(&bv).unwrap());
        let reference = match op { "+" => x + y, "-" => x - y, "*" => x * y, _ => x / y };
        let all: Vec<f64> = expect.iter().map(value_of).collect();
        let via = s.choice(3); // 0: FlatEx::operate_binary, 1: DeepEx::operate_binary, 2: DeepEx's std operators + - * /
        let (names, r_few, r_exact): (Vec<String>, bool, ExResult<f64>) = if via == 0 {
            let (fa, fb) = (FlatEx::<f64>::from_deepex(a).unwrap(), FlatEx::<f64>::from_deepex(b).unwrap());
            let c = fa.operate_binary(fb, op).unwrap();
            let n = c.var_names().len();
            (c.var_names().to_vec(), n == 0 || c.eval_relaxed(&vec![1.5; n - 1]).is_err(), c.eval(&all))
        } else {
            let c = if via == 1 { a.operate_binary(b, op).unwrap() } else { match op { "+" => (a + b).unwrap(), "-" => (a - b).unwrap(), "*" => (a * b).unwrap(), _ => (a / b).unwrap() } };
            let n = c.var_names().len();
            (c.var_names().to_vec(), n == 0 || c.eval_relaxed(&vec![1.5; n - 1]).is_err(), c.eval(&all))
        };
        assert!(names == expect, "C04 a derived expression (operator application) lists the sorted union of the names involved");
        assert!(r_few, "C04 the relaxed variant rejects too few values (derived expression)");
        match r_exact {
            // (a non-finite reference — 0/0, x/0 — is left unspecified: the symbolic shortcuts for 0 and 1 may simplify it)
            Ok(v) => assert!(!reference.is_finite() || (v - reference).abs() <= 1e-9 * (1.0 + reference.abs()),
                "C04 in a derived expression the n-th passed value is bound to the n-th name at every occurrence"),
            Err(_) => assert!(false, "C04 evaluation with the documented number of values succeeds (derived expression)"),
        }
    }
    /// a derivative lists exactly the names of its antiderivative and keeps the arity guards, also when a variable vanished
    pub fn derivative_names<S: Src>(s: &mut S) {
        const EX: [&str; 6] = ["x*y+z", "a+sin(b)", "x", "exp(x)+y", "{v 1}*{v 0}-{v 0}", "x*x*y"];
        let text = EX[s.choice(6) as usize];
        let deep = s.bool();
        let ex = DeepEx::<f64>::parse(text).unwrap();
        let names = ex.var_names().to_vec();
        let n = names.len();
        let i = s.range_usize(0, n - 1);
        let j = s.range_usize(0, n - 1);
        if deep {
            let d = ex.partial(i).unwrap().partial(j).unwrap();
            assert!(d.var_names() == &names[..], "C04 a derivative lists exactly the names of its antiderivative");
            assert!(d.eval(&vec![1.5; n]).is_ok() && d.eval(&vec![1.5; n + 1]).is_err() && d.eval(&vec![1.5; n - 1]).is_err(), "C04 evaluation with the wrong number of values is an error (derivative, deep form)");
            assert!(d.eval_relaxed(&vec![1.5; n + 1]).is_ok() && d.eval_relaxed(&vec![1.5; n - 1]).is_err(), "C04 the relaxed variant ignores surplus values and rejects too few (derivative, deep form)");
        } else {
            let d = FlatEx::<f64>::parse(text).unwrap().partial(i).unwrap().partial(j).unwrap();
            assert!(d.var_names() == &names[..], "C04 a derivative lists exactly the names of its antiderivative");
            assert!(d.eval(&vec![1.5; n]).is_ok() && d.eval(&vec![1.5; n + 1]).is_err() && d.eval(&vec![1.5; n - 1]).is_err(), "C04 evaluation with the wrong number of values is an error (derivative)");
            assert!(d.eval_relaxed(&vec![1.5; n + 1]).is_ok() && d.eval_relaxed(&vec![1.5; n - 1]).is_err(), "C04 the relaxed variant ignores surplus values and rejects too few (derivative)");
        }
    }
}
#[cfg(not(kani))]
pub use api::{arity_api, derivative_names, derived_names, var_lookup_spill};

#[cfg(not(kani))]
registry!("c04", var_lookup_spill, arity_api, derived_names, derivative_names, var_lookup_3, var_lookup_5, var_lookup_6, var_lookup_7, var_lookup_probe, arity_eval, arity_eval_relaxed, arity_eval_vec_1, arity_eval_vec_2, arity_eval_vec_3, arity_eval_iter_1, arity_eval_iter_2, arity_eval_iter_3);
#[cfg(kani)]
registry!("c04", var_lookup_3, var_lookup_5, var_lookup_6, var_lookup_7, var_lookup_probe, arity_eval, arity_eval_relaxed, arity_eval_vec_1, arity_eval_vec_2, arity_eval_vec_3, arity_eval_iter_1, arity_eval_iter_2, arity_eval_iter_3);
