//! C04 — arity guards and index binding of the flat form: for a `FlatEx` over two variable names
//! whose single node is `Var(1)`, and value slices of every length 0..=4 (enumerated concretely,
//! values symbolic): `eval` / `eval_vec` / `eval_iter` are `Err` iff the length is not 2,
//! `eval_relaxed` is `Err` iff it is below 2, and an `Ok` result is exactly the value at the
//! node's index — never another one and never a panic.
#[allow(unused_imports)]
use crate::src::Src;
use exmex::prelude::*;
use exmex::verif_hooks::*;
use exmex::FlatEx;
use smallvec::smallvec;

harness!(arity_guards, unwind = 8, |s| {
    let vals = [s.i32(), s.i32(), s.i32(), s.i32()];
    let var = s.choice(2) as usize;
    for k in 0..5usize {
        let nodes = smallvec![FlatNode { kind: FlatNodeKind::Var(var), unary_op: UnaryOp::new() }];
        let ex: FlatEx<i32, DummyOps> = FlatEx::new(nodes, smallvec![], smallvec![], smallvec![String::new(), String::new()], String::new());
        let slice = &vals[..k.min(4)];
        let slice: &[i32] = if k == 4 { &vals[..] } else { slice };
        let r = ex.eval(slice);
        assert!(r.is_err() == (k != 2), "C04 eval with the wrong number of values is an error, with the right number it is not");
        if let Ok(v) = &r { assert!(*v == vals[var], "C04 the n-th value is bound to the n-th variable"); }
        let rr = ex.eval_relaxed(slice);
        assert!(rr.is_err() == (k < 2), "C04 eval_relaxed ignores surplus values and rejects too few");
        if let Ok(v) = &rr { assert!(*v == vals[var], "C04 eval_relaxed binds the n-th value to the n-th variable"); }
        let rv = ex.eval_vec(slice.to_vec());
        assert!(rv.is_err() == (k != 2), "C04 eval_vec with the wrong number of values is an error");
        if let Ok(v) = &rv { assert!(*v == vals[var], "C04 eval_vec binds the n-th value to the n-th variable"); }
        let ri = ex.eval_iter(slice.iter().copied());
        assert!(ri.is_err() == (k != 2), "C04 eval_iter with the wrong number of values is an error");
        if let Ok(v) = &ri { assert!(*v == vals[var], "C04 eval_iter binds the n-th value to the n-th variable"); }
        core::mem::forget((r, rr, rv, ri, ex));
    }
});

#[derive(Clone, Debug)]
pub struct DummyOps;
impl exmex::MakeOperators<i32> for DummyOps {
    fn make<'a>() -> Vec<exmex::Operator<'a, i32>> { vec![] }
}

harness!(var_lookup, unwind = 12, |s| {
    // find_parsed_vars / find_var_index on concrete token shapes: names are collected without
    // duplicates, in Rust string order, and looked up by position
    let _ = s.bool();
    let toks: [ParsedToken<'static, i32>; 5] = [ParsedToken::Var("b"), ParsedToken::Num(1), ParsedToken::Var("a"), ParsedToken::Var("b"), ParsedToken::Var("B")];
    let vars = find_parsed_vars(&toks);
    assert!(vars.len() == 3, "C04 variables are the distinct names");
    assert!(vars[0] == "B" && vars[1] == "a" && vars[2] == "b", "C04 variables are listed in Rust string order");
    assert!(find_var_index("a", &vars) == 1 && find_var_index("b", &vars) == 2 && find_var_index("B", &vars) == 0, "C04 a name is looked up by its position in the sorted list");
    core::mem::forget((vars, toks));
});

registry!("c04", arity_guards, var_lookup);
