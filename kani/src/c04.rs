//! C04 — arity guards and index binding of the flat form: for a `FlatEx` over two variable names
//! whose single node is a symbolic variable index, and value slices of symbolic length 0..=4 with
//! symbolic values: `eval` is `Err` iff the length is not 2, `eval_relaxed` is `Err` iff it is below
//! 2, and an `Ok` result is exactly the value at the node's index — never another one, never a panic.
#[allow(unused_imports)]
use crate::src::Src;
use exmex::prelude::*;
use exmex::verif_hooks::*;
use exmex::FlatEx;
use smallvec::smallvec;

fn one_node(var: usize) -> FlatEx<i32, DummyOps> {
    let nodes = smallvec![FlatNode { kind: FlatNodeKind::Var(var), unary_op: UnaryOp::new() }];
    FlatEx::new(nodes, smallvec![], smallvec![], smallvec![String::new(), String::new()], String::new())
}
harness!(arity_eval, unwind = 8, |s| {
    let vals = [s.i32(), s.i32(), s.i32(), s.i32()];
    let var = s.choice(2) as usize;
    let k = s.range_usize(0, 4);
    let ex = one_node(var);
    let r = ex.eval(&vals[..k]);
    assert!(r.is_err() == (k != 2), "C04 eval with the wrong number of values is an error, with the right number it is not");
    if let Ok(v) = &r { assert!(*v == vals[var], "C04 the n-th value is bound to the n-th variable"); }
    cover!(s, k == 2, "right number of values");
    core::mem::forget((r, ex));
});
harness!(arity_eval_relaxed, unwind = 8, |s| {
    let vals = [s.i32(), s.i32(), s.i32(), s.i32()];
    let var = s.choice(2) as usize;
    let k = s.range_usize(0, 4);
    let ex = one_node(var);
    let rr = ex.eval_relaxed(&vals[..k]);
    assert!(rr.is_err() == (k < 2), "C04 eval_relaxed ignores surplus values and rejects too few");
    if let Ok(v) = &rr { assert!(*v == vals[var], "C04 eval_relaxed binds the n-th value to the n-th variable"); }
    cover!(s, k == 4, "surplus values");
    core::mem::forget((rr, ex));
});

// eval_vec / eval_iter: one harness per (concrete) number of passed values — a symbolic length inside the
// Vec / iterator construction did not finish in 15 min
fn vec_case<S: Src>(s: &mut S, k: usize) {
    let vals = [s.i32(), s.i32(), s.i32()];
    let var = s.choice(2) as usize;
    let ex = one_node(var);
    let v: Vec<i32> = match k { 1 => vec![vals[0]], 2 => vec![vals[0], vals[1]], _ => vec![vals[0], vals[1], vals[2]] };
    let r = ex.eval_vec(v);
    assert!(r.is_err() == (k != 2), "C04 eval_vec with the wrong number of values is an error, with the right number it is not");
    if let Ok(x) = &r { assert!(*x == vals[var], "C04 eval_vec binds the n-th value to the n-th variable"); }
    core::mem::forget((r, ex));
}
fn iter_case<S: Src>(s: &mut S, k: usize) {
    let vals = [s.i32(), s.i32(), s.i32()];
    let var = s.choice(2) as usize;
    let ex = one_node(var);
    let r = match k {
        1 => ex.eval_iter([vals[0]].into_iter()),
        2 => ex.eval_iter([vals[0], vals[1]].into_iter()),
        _ => ex.eval_iter([vals[0], vals[1], vals[2]].into_iter()),
    };
    assert!(r.is_err() == (k != 2), "C04 eval_iter with the wrong number of values is an error, with the right number it is not");
    if let Ok(x) = &r { assert!(*x == vals[var], "C04 eval_iter binds the n-th value to the n-th variable"); }
    core::mem::forget((r, ex));
}
harness!(arity_eval_vec_1, unwind = 8, |s| { vec_case(s, 1) });
harness!(arity_eval_vec_2, unwind = 8, |s| { vec_case(s, 2) });
harness!(arity_eval_vec_3, unwind = 8, |s| { vec_case(s, 3) });
harness!(arity_eval_iter_1, unwind = 8, |s| { iter_case(s, 1) });
harness!(arity_eval_iter_2, unwind = 8, |s| { iter_case(s, 2) });
harness!(arity_eval_iter_3, unwind = 8, |s| { iter_case(s, 3) });

#[derive(Clone, Debug)]
pub struct DummyOps;
impl exmex::MakeOperators<i32> for DummyOps {
    fn make<'a>() -> Vec<exmex::Operator<'a, i32>> { vec![] }
}

/// native-only sampled probe: `find_parsed_vars` / `find_var_index` on random token lists over a palette of
/// tricky names: the result lists the distinct names in Rust string order, and every name is found at
/// its position
pub fn var_lookup_probe<S: Src>(s: &mut S) {
    const NAMES: [&str; 12] = ["a", "b", "B", "a1", "_a", "α", "ab", " a", "x y", "👍+👎", "Z", "aa"];
    let n = s.choice(10) as usize;
    let mut toks: Vec<ParsedToken<'static, i32>> = vec![];
    let mut used: Vec<&'static str> = vec![];
    for _ in 0..n {
        if s.choice(4) == 0 { toks.push(ParsedToken::Num(1)); } else { let nm = NAMES[s.choice(12) as usize]; toks.push(ParsedToken::Var(nm)); used.push(nm); }
    }
    let vars = find_parsed_vars(&toks);
    let mut expect: Vec<&str> = used.clone();
    expect.sort();
    expect.dedup();
    assert!(vars.len() == expect.len() && vars.iter().zip(expect.iter()).all(|(a, b)| a == b), "C04 the variables are the distinct names in Rust string order");
    for (i, nm) in expect.iter().enumerate() {
        assert!(find_var_index(nm, &vars) == i, "C04 a name is looked up at its position in the sorted list");
    }
}

/// native-only, for exhaustive enumeration: exactly N tokens, each one of the 12 names or a number
fn var_lookup<S: Src, const N: usize>(s: &mut S) {
    const NAMES: [&str; 12] = ["a", "b", "B", "a1", "_a", "α", "ab", " a", "x y", "👍+👎", "Z", "aa"];
    let mut toks: Vec<ParsedToken<'static, i32>> = vec![];
    let mut used: Vec<&'static str> = vec![];
    for _ in 0..N {
        let c = s.choice(13) as usize;
        if c == 12 { toks.push(ParsedToken::Num(1)); } else { toks.push(ParsedToken::Var(NAMES[c])); used.push(NAMES[c]); }
    }
    let vars = find_parsed_vars(&toks);
    let mut expect: Vec<&str> = used.clone();
    expect.sort();
    expect.dedup();
    assert!(vars.len() == expect.len() && vars.iter().zip(expect.iter()).all(|(a, b)| a == b), "C04 the variables are the distinct names in Rust string order");
    for (i, nm) in expect.iter().enumerate() {
        assert!(find_var_index(nm, &vars) == i, "C04 a name is looked up at its position in the sorted list");
    }
}
pub fn var_lookup_3<S: Src>(s: &mut S) { var_lookup::<S, 3>(s) }
pub fn var_lookup_5<S: Src>(s: &mut S) { var_lookup::<S, 5>(s) }
pub fn var_lookup_6<S: Src>(s: &mut S) { var_lookup::<S, 6>(s) }
pub fn var_lookup_7<S: Src>(s: &mut S) { var_lookup::<S, 7>(s) }

registry!("c04", var_lookup_3, var_lookup_5, var_lookup_6, var_lookup_7, var_lookup_probe, arity_eval, arity_eval_relaxed, arity_eval_vec_1, arity_eval_vec_2, arity_eval_vec_3, arity_eval_iter_1, arity_eval_iter_2, arity_eval_iter_3);
