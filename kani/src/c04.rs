//! C04 — arity guards and index binding of the flat form: for a `FlatEx` over two variable names
//! whose single node is a symbolic variable index, and value slices of symbolic length 0..=4 with
//! symbolic values: `eval` is `Err` iff the length is not 2, `eval_relaxed` is `Err` iff it is below
//! 2, and an `Ok` result is exactly the value at the node's index — never another one, never a panic.
#[allow(unused_imports)]
use crate::src::Src;
use exmex::prelude::*;
use exmex::verif_hooks::*;
use exmex::FlatEx;
use smallvec::smallvec;

fn one_node(var: usize) -> FlatEx<i32, DummyOps> {
    let nodes = smallvec![FlatNode { kind: FlatNodeKind::Var(var), unary_op: UnaryOp::new() }];
    FlatEx::new(nodes, smallvec![], smallvec![], smallvec![String::new(), String::new()], String::new())
}
harness!(arity_eval, unwind = 8, |s| {
    let vals = [s.i32(), s.i32(), s.i32(), s.i32()];
    let var = s.choice(2) as usize;
    let k = s.range_usize(0, 4);
    let ex = one_node(var);
    let r = ex.eval(&vals[..k]);
    assert!(r.is_err() == (k != 2), "C04 eval with the wrong number of values is an error, with the right number it is not");
    if let Ok(v) = &r { assert!(*v == vals[var], "C04 the n-th value is bound to the n-th variable"); }
    cover!(s, k == 2, "right number of values");
    core::mem::forget((r, ex));
});
harness!(arity_eval_relaxed, unwind = 8, |s| {
    let vals = [s.i32(), s.i32(), s.i32(), s.i32()];
    let var = s.choice(2) as usize;
    let k = s.range_usize(0, 4);
    let ex = one_node(var);
    let rr = ex.eval_relaxed(&vals[..k]);
    assert!(rr.is_err() == (k < 2), "C04 eval_relaxed ignores surplus values and rejects too few");
    if let Ok(v) = &rr { assert!(*v == vals[var], "C04 eval_relaxed binds the n-th value to the n-th variable"); }
    cover!(s, k == 4, "surplus values");
    core::mem::forget((rr, ex));
});

// eval_vec / eval_iter: one harness per (concrete) number of passed values — a symbolic length inside the
// Vec / iterator construction did not finish in 15 min
fn vec_case<S: Src>(s: &mut S, k: usize) {
    let vals = [s.i32(), s.i32(), s.i32()];
    let var = s.choice(2) as usize;
    let ex = one_node(var);
    let v: Vec<i32> = match k { 1 => vec![vals[0]], 2 => vec![vals[0], vals[1]], _ => vec![vals[0], vals[1], vals[2]] };
    let r = ex.eval_vec(v);
    assert!(r.is_err() == (k != 2), "C04 eval_vec with the wrong number of values is an error, with the right number it is not");
    if let Ok(x) = &r { assert!(*x == vals[var], "C04 eval_vec binds the n-th value to the n-th variable"); }
    core::mem::forget((r, ex));
}
fn iter_case<S: Src>(s: &mut S, k: usize) {
    let vals = [s.i32(), s.i32(), s.i32()];
    let var = s.choice(2) as usize;
    let ex = one_node(var);
    let r = match k {
        1 => ex.eval_iter([vals[0]].into_iter()),
        2 => ex.eval_iter([vals[0], vals[1]].into_iter()),
        _ => ex.eval_iter([vals[0], vals[1], vals[2]].into_iter()),
    };
    assert!(r.is_err() == (k != 2), "C04 eval_iter with the wrong number of values is an error, with the right number it is not");
    if let Ok(x) = &r { assert!(*x == vals[var], "C04 eval_iter binds the n-th value to the n-th variable"); }
    core::mem::forget((r, ex));
}
harness!(arity_eval_vec_1, unwind = 8, |s| { vec_case(s, 1) });
harness!(arity_eval_vec_2, unwind = 8, |s| { vec_case(s, 2) });
harness!(arity_eval_vec_3, unwind = 8, |s| { vec_case(s, 3) });
harness!(arity_eval_iter_1, unwind = 8, |s| { iter_case(s, 1) });
harness!(arity_eval_iter_2, unwind = 8, |s| { iter_case(s, 2) });
harness!(arity_eval_iter_3, unwind = 8, |s| { iter_case(s, 3) });

#[derive(Clone, Debug)]
pub struct DummyOps;
impl exmex::MakeOperators<i32> for DummyOps {
    fn make<'a>() -> Vec<exmex::Operator<'a, i32>> { vec![] }
}

registry!("c04", arity_eval, arity_eval_relaxed, arity_eval_vec_1, arity_eval_vec_2, arity_eval_vec_3, arity_eval_iter_1, arity_eval_iter_2, arity_eval_iter_3);
