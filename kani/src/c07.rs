//! C07 — `parser::check_parsed_token_preconditions`: every token sequence of length 0..=L over the
//! seven token kinds {number, variable, `(`, `)`, operator that is binary+unary, binary-only,
//! unary-only}.  Token kinds and number payloads are symbolic.  Contract from the property text and the documented
//! adjacency rules: the sequence is rejected **iff** it is empty, ends in an operator, has
//! unbalanced parentheses (or closes before it opens), or contains a forbidden adjacent pair.
use crate::src::Src;
use exmex::verif_hooks::*;
use exmex::{BinOp, Operator};

fn b(a: i32, _b: i32) -> i32 { a }
fn u(a: i32) -> i32 { a }
fn mk_tok<S: Src>(s: &mut S, k: u8) -> ParsedToken<'static, i32> {
    let bin = BinOp { apply: b as fn(i32, i32) -> i32, prio: 1, is_commutative: false };
    match k {
        0 => ParsedToken::Num(s.i32()),
        1 => ParsedToken::Var("x"),
        2 => ParsedToken::Paren(Paren::Open),
        3 => ParsedToken::Paren(Paren::Close),
        4 => ParsedToken::Op((0, Operator::make_bin_unary("-", bin, u))),
        5 => ParsedToken::Op((1, Operator::make_bin("*", bin))),
        _ => ParsedToken::Op((2, Operator::make_unary("sin", u))),
    }
}
fn is_operand(k: u8) -> bool { k == 0 || k == 1 }
fn is_op(k: u8) -> bool { k >= 4 }
fn has_bin(k: u8) -> bool { k == 4 || k == 5 }
fn has_unary(k: u8) -> bool { k == 4 || k == 6 }
/// documented forbidden adjacencies
fn forbidden(l: u8, r: u8) -> bool {
    (l == 3 && is_operand(r))                                  // operand directly after `)`
        || (is_operand(l) && r == 2)                           // operand directly before `(`
        || (is_operand(l) && is_op(r) && !has_bin(r))          // operand before a unary-only operator
        || (is_op(l) && is_op(r) && !has_unary(l) && !has_unary(r))  // two binary-only operators
        || (is_op(l) && is_op(r) && !has_bin(l) && !has_unary(r))    // unary-only before binary-only
        || (is_op(l) && r == 3)                                // operator before `)`
        || (l == 3 && is_op(r) && !has_bin(r))                 // `)` before a unary-only operator
        || (l == 2 && r == 3)                                  // `()`
}
fn expect_err(kinds: &[u8]) -> bool {
    if kinds.is_empty() { return true; }
    if is_op(kinds[kinds.len() - 1]) { return true; }
    let mut open: i32 = 0;
    let mut i = 0;
    while i < kinds.len() {
        if kinds[i] == 2 { open += 1; }
        if kinds[i] == 3 { open -= 1; if open < 0 { return true; } }
        if i + 1 < kinds.len() && forbidden(kinds[i], kinds[i + 1]) { return true; }
        i += 1;
    }
    open != 0
}
fn check_seq<S: Src, const L: usize>(s: &mut S, fixed_first: Option<u8>) {
    // exactly L tokens; token kinds are symbolic (except an optionally fixed first one)
    let mut kinds = [0u8; L];
    for (i, k) in kinds.iter_mut().enumerate() {
        *k = match (i, fixed_first) { (0, Some(f)) => f, _ => s.choice(7) };
    }
    let toks: [ParsedToken<'static, i32>; L] = core::array::from_fn(|i| mk_tok(s, kinds[i]));
    let r = check_parsed_token_preconditions(&toks);
    if expect_err(&kinds) {
        assert!(r.is_err(), "C07 malformed token sequence (empty / trailing operator / unbalanced parentheses / forbidden adjacency) is rejected");
    } else {
        assert!(r.is_ok(), "C07 a token sequence without any documented defect passes the precondition check");
    }
    core::mem::forget((r, toks));
}

harness!(preconditions_len_0, unwind = 10, |s| { check_seq::<S, 0>(s, None) });
harness!(preconditions_len_1, unwind = 10, |s| { check_seq::<S, 1>(s, None) });
harness!(preconditions_len_2, unwind = 10, |s| { check_seq::<S, 2>(s, None) });
// length 3: the first token kind is fixed per harness so the work spreads over the cores
harness!(preconditions_len_3_a0, unwind = 10, |s| { check_seq::<S, 3>(s, Some(0)) });
harness!(preconditions_len_3_a1, unwind = 10, |s| { check_seq::<S, 3>(s, Some(1)) });
harness!(preconditions_len_3_a2, unwind = 10, |s| { check_seq::<S, 3>(s, Some(2)) });
harness!(preconditions_len_3_a3, unwind = 10, |s| { check_seq::<S, 3>(s, Some(3)) });
harness!(preconditions_len_3_a4, unwind = 10, |s| { check_seq::<S, 3>(s, Some(4)) });
harness!(preconditions_len_3_a5, unwind = 10, |s| { check_seq::<S, 3>(s, Some(5)) });
harness!(preconditions_len_3_a6, unwind = 10, |s| { check_seq::<S, 3>(s, Some(6)) });

registry!("c07", preconditions_len_0, preconditions_len_1, preconditions_len_2, preconditions_len_3_a0, preconditions_len_3_a1, preconditions_len_3_a2,
    preconditions_len_3_a3, preconditions_len_3_a4, preconditions_len_3_a5, preconditions_len_3_a6);
