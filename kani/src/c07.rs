//! C07 — `parser::check_parsed_token_preconditions`: every token sequence of length 0..=L over the
//! seven token kinds {number, variable, `(`, `)`, operator that is binary+unary, binary-only,
//! unary-only}.  Token kinds and number payloads are symbolic.  Contract from the property text and the documented
//! adjacency rules: the sequence is rejected **iff** it is empty, ends in an operator, has
//! unbalanced parentheses (or closes before it opens), or contains a forbidden adjacent pair.
use crate::src::Src;
use exmex::verif_hooks::*;
use exmex::{BinOp, Operator};

fn b(a: i32, _b: i32) -> i32 { a }
fn u(a: i32) -> i32 { a }
fn mk_tok<S: Src>(s: &mut S, k: u8) -> ParsedToken<'static, i32> {
    let bin = BinOp { apply: b as fn(i32, i32) -> i32, prio: 1, is_commutative: false };
    match k {
        0 => ParsedToken::Num(s.i32()),
        1 => ParsedToken::Var("x"),
        2 => ParsedToken::Paren(Paren::Open),
        3 => ParsedToken::Paren(Paren::Close),
        4 => ParsedToken::Op((0, Operator::make_bin_unary("-", bin, u))),
        5 => ParsedToken::Op((1, Operator::make_bin("*", bin))),
        _ => ParsedToken::Op((2, Operator::make_unary("sin", u))),
    }
}
fn is_operand(k: u8) -> bool { k == 0 || k == 1 }
fn is_op(k: u8) -> bool { k >= 4 }
fn has_bin(k: u8) -> bool { k == 4 || k == 5 }
fn has_unary(k: u8) -> bool { k == 4 || k == 6 }
/// documented forbidden adjacencies
fn forbidden(l: u8, r: u8) -> bool {
    (l == 3 && is_operand(r))                                  // operand directly after `)`
        || (is_operand(l) && r == 2)                           // operand directly before `(`
        || (is_operand(l) && is_op(r) && !has_bin(r))          // operand before a unary-only operator
        || (is_op(l) && is_op(r) && !has_unary(l) && !has_unary(r))  // two binary-only operators
        || (is_op(l) && is_op(r) && !has_bin(l) && !has_unary(r))    // unary-only before binary-only
        || (is_op(l) && r == 3)                                // operator before `)`
        || (l == 3 && is_op(r) && !has_bin(r))                 // `)` before a unary-only operator
        || (l == 2 && r == 3)                                  // `()`
}
fn expect_err(kinds: &[u8]) -> bool {
    if kinds.is_empty() { return true; }
    if is_op(kinds[kinds.len() - 1]) { return true; }
    let mut open: i32 = 0;
    let mut i = 0;
    while i < kinds.len() {
        if kinds[i] == 2 { open += 1; }
        if kinds[i] == 3 { open -= 1; if open < 0 { return true; } }
        if i + 1 < kinds.len() && forbidden(kinds[i], kinds[i + 1]) { return true; }
        i += 1;
    }
    open != 0
}
fn check_seq<S: Src, const L: usize>(s: &mut S, fixed: &[u8]) {
    // exactly L tokens; the kinds of the first `fixed.len()` tokens are concrete, the others symbolic
    // (cost grows ~50x per symbolic token kind: 1 symbolic = 5 s, 2 = 250 s, 3 = no result in 50 min)
    let mut kinds = [0u8; L];
    for (i, k) in kinds.iter_mut().enumerate() {
        *k = if i < fixed.len() { fixed[i] } else { s.choice(7) };
    }
    let toks: [ParsedToken<'static, i32>; L] = core::array::from_fn(|i| mk_tok(s, kinds[i]));
    let r = check_parsed_token_preconditions(&toks);
    if expect_err(&kinds) {
        assert!(r.is_err(), "C07 malformed token sequence (empty / trailing operator / unbalanced parentheses / forbidden adjacency) is rejected");
    } else {
        assert!(r.is_ok(), "C07 a token sequence without any documented defect passes the precondition check");
    }
    core::mem::forget((r, toks));
}

harness!(preconditions_len_0, unwind = 10, |s| { check_seq::<S, 0>(s, &[]) });
harness!(preconditions_len_1, unwind = 10, |s| { check_seq::<S, 1>(s, &[]) });
harness!(preconditions_len_2, unwind = 10, |s| { check_seq::<S, 2>(s, &[]) });
// length 3: the first two token kinds are fixed per harness and the third is symbolic: 38 of the 49 prefixes
// (3-15 s each).  The 11 prefixes whose second token is an operator that may legally follow the first
// (`x -`, `x *`, `x sin`, `) -`, `) *`, `) sin`, `- *`, `sin *`) are NOT covered: no result in 15 min, neither with
// a symbolic nor with a concrete third kind (measured).  The sampled native probe below includes them.
macro_rules! len3 { ($($name:ident = [$($k:expr),+]),* $(,)?) => { $( harness!($name, unwind = 10, |s| { check_seq::<S, 3>(s, &[$($k),+]) }); )* } }
len3!(l3_00 = [0, 0], l3_01 = [0, 1], l3_02 = [0, 2], l3_03 = [0, 3], l3_10 = [1, 0], l3_11 = [1, 1], l3_12 = [1, 2], l3_13 = [1, 3], l3_20 = [2, 0], l3_21 = [2, 1], l3_22 = [2, 2], l3_23 = [2, 3], l3_24 = [2, 4], l3_25 = [2, 5], l3_26 = [2, 6], l3_30 = [3, 0], l3_31 = [3, 1], l3_32 = [3, 2], l3_33 = [3, 3], l3_40 = [4, 0], l3_41 = [4, 1], l3_42 = [4, 2], l3_43 = [4, 3], l3_44 = [4, 4], l3_46 = [4, 6], l3_50 = [5, 0], l3_51 = [5, 1], l3_52 = [5, 2], l3_53 = [5, 3], l3_54 = [5, 4], l3_55 = [5, 5], l3_56 = [5, 6], l3_60 = [6, 0], l3_61 = [6, 1], l3_62 = [6, 2], l3_63 = [6, 3], l3_64 = [6, 4], l3_66 = [6, 6]);
pub fn preconditions_len_3<S: Src>(s: &mut S) { check_seq::<S, 3>(s, &[]) }
// native-only sampled probe: 8 tokens, all kinds drawn
pub fn preconditions_len_8<S: Src>(s: &mut S) { check_seq::<S, 8>(s, &[]) }

// ---------------------------------------------------------------- exhaustive native enumeration (bounded, not a proof)
// `exmex_replay --exhaust` runs a harness body on EVERY draw sequence.  Natively the real pair rules run in 2 us, so
// lengths far beyond CBMC's reach (3 symbolic token kinds: no result in 50 min) are enumerated completely.
pub fn preconditions_len_4<S: Src>(s: &mut S) { check_seq::<S, 4>(s, &[]) }
pub fn preconditions_len_5<S: Src>(s: &mut S) { check_seq::<S, 5>(s, &[]) }
pub fn preconditions_len_6<S: Src>(s: &mut S) { check_seq::<S, 6>(s, &[]) }
pub fn preconditions_len_7<S: Src>(s: &mut S) { check_seq::<S, 7>(s, &[]) }
pub fn preconditions_len_9<S: Src>(s: &mut S) { check_seq::<S, 9>(s, &[]) }
pub fn preconditions_len_10<S: Src>(s: &mut S) { check_seq::<S, 10>(s, &[]) }

// The parenthesis walk / trailing-operator rule is a property of the whole sequence, the pair rules only of
// adjacent pairs.  Longer sequences over the four kinds number, `(`, `)`, binary operator, constrained draw by
// draw to be pair-valid (so the enumeration prunes every continuation of an invalid prefix): rejected iff the
// parentheses are unbalanced / close before they open or the sequence ends in an operator.
fn paren_walk<S: Src, const L: usize>(s: &mut S) {
    const PAL: [u8; 4] = [0, 2, 3, 5];
    let mut kinds = [0u8; L];
    for i in 0..L {
        kinds[i] = PAL[s.choice(4) as usize];
        if i > 0 { s.assume(!forbidden(kinds[i - 1], kinds[i])); }
    }
    let toks: [ParsedToken<'static, i32>; L] = core::array::from_fn(|i| mk_tok(s, kinds[i]));
    let r = check_parsed_token_preconditions(&toks);
    if expect_err(&kinds) {
        assert!(r.is_err(), "C07 unbalanced parentheses (or a closing one before its partner), an empty text or a trailing operator is rejected");
    } else {
        assert!(r.is_ok(), "C07 a pair-valid token sequence with balanced parentheses that does not end in an operator passes the precondition check");
    }
    core::mem::forget((r, toks));
}
pub fn paren_walk_9<S: Src>(s: &mut S) { paren_walk::<S, 9>(s) }
pub fn paren_walk_10<S: Src>(s: &mut S) { paren_walk::<S, 10>(s) }
pub fn paren_walk_11<S: Src>(s: &mut S) { paren_walk::<S, 11>(s) }
pub fn paren_walk_12<S: Src>(s: &mut S) { paren_walk::<S, 12>(s) }
pub fn paren_walk_13<S: Src>(s: &mut S) { paren_walk::<S, 13>(s) }
pub fn paren_walk_14<S: Src>(s: &mut S) { paren_walk::<S, 14>(s) }
pub fn paren_walk_15<S: Src>(s: &mut S) { paren_walk::<S, 15>(s) }
pub fn paren_walk_16<S: Src>(s: &mut S) { paren_walk::<S, 16>(s) }

// ---------------------------------------------------------------- single-point damages, through every parser (native only)
// The property's "in particular" sentence, executed on the public API: a well-formed expression damaged by deleting
// or inserting one parenthesis, appending a binary operator, placing an extra operand directly beside an existing
// operand, or inserting an illegal character never parses — for every parser entry point.  Enumerated by
// `exmex_replay --exhaust` over 10 expressions x 5 damage kinds x every position x 5 parsers x {no blanks, blanks}.
// Never run under Kani (the parsers are out of CBMC's reach); bounded stand-in, not a proof.
#[cfg(not(kani))]
pub fn single_damage<S: Src>(s: &mut S) {
    use exmex::prelude::*;
    const EXPRS: [&[&str]; 10] = [
        &["x", "+", "(", "3", ")", "*", "2"],
        &["2", "*", "(", "3", "+", "4", ")", "-", "sin", "(", "y", ")"],
        &["1", "+", "2"],
        &["(", "x", "+", "1", ")", "*", "(", "y", "-", "2", ")"],
        &["-", "x", "^", "2"],
        &["sin", "(", "cos", "(", "z", ")", ")", "/", "4.5"],
        &["7"],
        &["(", "(", "a", ")", ")"],
        &["x", "*", "y", "+", "(", "z", "+", "1", ")", "*", "2"],
        &["1", "-", "(", "2", "-", "(", "3", "-", "x", ")", ")"],
    ];
    let toks = EXPRS[s.choice(10) as usize];
    let n = toks.len();
    let is_operand = |t: &str| t.chars().next().map_or(false, |c| c.is_ascii_digit() || (c.is_ascii_lowercase() && t.len() == 1));
    let mut v: Vec<&str> = toks.to_vec();
    let kind = s.choice(6);
    match kind {
        0 => { // delete one parenthesis
            let ps: Vec<usize> = (0..n).filter(|i| toks[*i] == "(" || toks[*i] == ")").collect();
            s.assume(!ps.is_empty());
            let i = ps[s.range_usize(0, ps.len() - 1)];
            v.remove(i);
        }
        1 => { let i = s.range_usize(0, n); v.insert(i, "("); }      // insert an opening parenthesis anywhere
        2 => { let i = s.range_usize(0, n); v.insert(i, ")"); }      // insert a closing parenthesis anywhere
        3 => { v.push(["*", "/", "^", "+", "-"][s.choice(5) as usize]); }   // append a binary operator
        4 => { // an extra operand directly beside an existing operand (left or right of it)
            let os: Vec<usize> = (0..n).filter(|i| is_operand(toks[*i])).collect();
            let i = os[s.range_usize(0, os.len() - 1)];
            let extra = ["7", "w", "2.5"][s.choice(3) as usize];
            if s.bool() { v.insert(i, extra); } else { v.insert(i + 1, extra); }
        }
        _ => { let i = s.range_usize(0, n); v.insert(i, ["#", "$", "ά", "§"][s.choice(4) as usize]); }   // an illegal character anywhere
    }
    let text = v.join(" ");
    let rejected = match s.choice(5) {
        0 => FlatEx::<f64>::parse(&text).is_err(),
        1 => FlatEx::<f64>::parse_wo_compile(&text).is_err(),
        2 => exmex::DeepEx::<f64>::parse(&text).is_err(),
        3 => exmex::eval_str::<f64>(&text).is_err(),
        _ => exmex::parse_val::<i32, f64>(&text).is_err(),
    };
    if !rejected && std::env::var("C07_DEBUG").is_ok() { eprintln!("accepted: {:?} (damage kind {})", text, kind); }
    assert!(rejected, "C07 a well-formed expression damaged by deleting or inserting one parenthesis, appending a binary operator, placing an extra operand beside an operand, or inserting an illegal character never parses");
}

#[cfg(not(kani))]
registry!("c07", single_damage, preconditions_len_4, preconditions_len_5, preconditions_len_6, preconditions_len_7, preconditions_len_9, preconditions_len_10,
    paren_walk_9, paren_walk_10, paren_walk_11, paren_walk_12, paren_walk_13, paren_walk_14, paren_walk_15, paren_walk_16, preconditions_len_8, preconditions_len_3, preconditions_len_0, preconditions_len_1, preconditions_len_2,
    l3_00, l3_01, l3_02, l3_03, l3_10, l3_11, l3_12, l3_13, l3_20, l3_21, l3_22, l3_23, l3_24, l3_25, l3_26, l3_30, l3_31, l3_32, l3_33, l3_40, l3_41, l3_42, l3_43, l3_44, l3_46, l3_50, l3_51, l3_52, l3_53, l3_54, l3_55, l3_56, l3_60, l3_61, l3_62, l3_63, l3_64, l3_66);
#[cfg(kani)]
registry!("c07", preconditions_len_4, preconditions_len_5, preconditions_len_6, preconditions_len_7, preconditions_len_9, preconditions_len_10,
    paren_walk_9, paren_walk_10, paren_walk_11, paren_walk_12, paren_walk_13, paren_walk_14, paren_walk_15, paren_walk_16, preconditions_len_8, preconditions_len_3, preconditions_len_0, preconditions_len_1, preconditions_len_2,
    l3_00, l3_01, l3_02, l3_03, l3_10, l3_11, l3_12, l3_13, l3_20, l3_21, l3_22, l3_23, l3_24, l3_25, l3_26, l3_30, l3_31, l3_32, l3_33, l3_40, l3_41, l3_42, l3_43, l3_44, l3_46, l3_50, l3_51, l3_52, l3_53, l3_54, l3_55, l3_56, l3_60, l3_61, l3_62, l3_63, l3_64, l3_66);
