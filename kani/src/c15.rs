//! C15 — consuming evaluation (`eval_flatex_consuming_vars`) agrees with borrowing evaluation
//! (`eval_flatex_cloning`); a moved-out placeholder never reaches an operator; a variable that
//! occurs exactly once is moved, not cloned.
//!
//! Bounded: N nodes, each a symbolic choice of {literal, variable 0, variable 1} with a symbolic
//! optional unary function, symbolic application order of the N-1 operators, symbolic values.
//! N = 2 (quick), N = 3 (thorough: measured 800 s / 15 GB at design time).
use crate::src::Src;
use exmex::verif_hooks::*;
use exmex::BinOp;

static mut CLONES: [u32; 3] = [0; 3];

/// operand with provenance: `id` = variable index (2 = literal); `moved` is set by `Default`
#[derive(Debug, PartialEq)]
pub struct M { v: u32, id: u8, moved: bool }
impl Default for M { fn default() -> Self { M { v: 0, id: 2, moved: true } } }
impl Clone for M {
    fn clone(&self) -> Self {
        unsafe { CLONES[self.id as usize] += 1; }
        M { v: self.v, id: self.id, moved: self.moved }
    }
}
fn comb(a: u32, b: u32) -> u32 { a.wrapping_mul(31).wrapping_add(b.wrapping_mul(17)).wrapping_add(5) }
fn op(a: M, b: M) -> M {
    assert!(!a.moved && !b.moved, "C15 a moved-out placeholder value reached an operator");
    M { v: comb(a.v, b.v), id: 2, moved: false }
}
fn un(a: M) -> M {
    assert!(!a.moved, "C15 a moved-out placeholder value reached a unary operator");
    M { v: a.v.wrapping_mul(3).wrapping_add(1), id: 2, moved: false }
}

fn run<S: Src, const N: usize, const K: usize>(s: &mut S) {
    // K == N - 1.  shape[i]: 0 = literal, 1 = variable 0, 2 = variable 1 (symbolic)
    let x0 = s.u32(); let x1 = s.u32();
    let mut shape = [0u8; N]; let mut lit = [0u32; N]; let mut has_un = [false; N];
    for i in 0..N { shape[i] = s.choice(3); lit[i] = s.u32(); has_un[i] = s.bool(); }
    let mut order = [0usize; K];
    if K <= 2 {
        for i in 0..K { order[i] = s.usize(); s.assume(order[i] < K); for j in 0..i { s.assume(order[i] != order[j]); } }
    } else {
        // native probes (never run under Kani): Fisher-Yates, no rejection
        let mut rest: Vec<usize> = (0..K).collect();
        for i in 0..K { let r = s.range_usize(0, rest.len() - 1); order[i] = rest.remove(r); }
    }
    let nodes: [FlatNode<M>; N] = core::array::from_fn(|i| FlatNode {
        kind: match shape[i] { 0 => FlatNodeKind::Num(M { v: lit[i], id: 2, moved: false }), k => FlatNodeKind::Var(k as usize - 1) },
        unary_op: if has_un[i] { UnaryOp::from_vec(smallvec::smallvec![UnaryFuncWithIdx { f: un as fn(M) -> M, idx: 0 }]) } else { UnaryOp::new() },
    });
    let ops: [FlatOp<M>; K] = core::array::from_fn(|i| FlatOp { unary_op: UnaryOp::new(), bin_op: BinOpWithIdx { op: BinOp { apply: op as fn(M, M) -> M, prio: 0, is_commutative: false }, idx: i } });
    // reference: plain reduction over value arrays in the given order (nearest live neighbours)
    let mut vals = [0u32; N]; let mut live = [true; N];
    for i in 0..N {
        let base = match shape[i] { 0 => lit[i], 1 => x0, _ => x1 };
        vals[i] = if has_un[i] { base.wrapping_mul(3).wrapping_add(1) } else { base };
    }
    for &k in order.iter() {
        let mut l = k; while !live[l] { l -= 1; }
        let mut r = k + 1; while !live[r] { r += 1; }
        vals[l] = comb(vals[l], vals[r]); live[r] = false;
    }
    let expect = vals[0];
    let vars = [M { v: x0, id: 0, moved: false }, M { v: x1, id: 1, moved: false }];
    let r_clone = eval_flatex_cloning(&vars, &nodes, &ops, &order);
    unsafe { CLONES = [0; 3]; }
    let mut owned = [M { v: x0, id: 0, moved: false }, M { v: x1, id: 1, moved: false }];
    let r_cons = eval_flatex_consuming_vars(&mut owned, &nodes, &ops, &order);
    match (&r_clone, &r_cons) {
        (Ok(a), Ok(b2)) => {
            assert!(a.v == expect && !a.moved, "C15 borrowing evaluation equals the reference reduction");
            assert!(b2.v == expect && !b2.moved, "C15 consuming evaluation equals borrowing evaluation");
        }
        _ => assert!(false, "C15 both evaluations return Ok"),
    }
    for v in 0..2usize {
        let mut occ = 0; for i in 0..N { if shape[i] as usize == v + 1 { occ += 1; } }
        if occ == 1 { assert!(unsafe { CLONES[v] } == 0, "C15 a variable that occurs exactly once is moved, not cloned"); }
        cover!(s, occ >= 2, "a variable that occurs more than once");
    }
    core::mem::forget((r_clone, r_cons, nodes, ops));
}

/// concrete *shape* (which node is a literal / variable 0 / variable 1) and concrete application order,
/// symbolic values and unary flags: cheap enough for the quick tier and reaches repetition patterns
/// that need 3 or 4 nodes (a variable used three times; two variables used twice each, interleaved;
/// a once-used variable next to a repeated one)
fn shape_case<S: Src, const N: usize, const K: usize>(s: &mut S, shape: [u8; N], order: [usize; K]) {
    let x0 = s.u32(); let x1 = s.u32();
    let mut lit = [0u32; N]; let mut has_un = [false; N];
    for i in 0..N { lit[i] = s.u32(); has_un[i] = s.bool(); }
    let nodes: [FlatNode<M>; N] = core::array::from_fn(|i| FlatNode {
        kind: match shape[i] { 0 => FlatNodeKind::Num(M { v: lit[i], id: 2, moved: false }), k => FlatNodeKind::Var(k as usize - 1) },
        unary_op: if has_un[i] { UnaryOp::from_vec(smallvec::smallvec![UnaryFuncWithIdx { f: un as fn(M) -> M, idx: 0 }]) } else { UnaryOp::new() },
    });
    let ops: [FlatOp<M>; K] = core::array::from_fn(|i| FlatOp { unary_op: UnaryOp::new(), bin_op: BinOpWithIdx { op: BinOp { apply: op as fn(M, M) -> M, prio: 0, is_commutative: false }, idx: i } });
    let mut vals = [0u32; N]; let mut live = [true; N];
    for i in 0..N {
        let base = match shape[i] { 0 => lit[i], 1 => x0, _ => x1 };
        vals[i] = if has_un[i] { base.wrapping_mul(3).wrapping_add(1) } else { base };
    }
    for &k in order.iter() {
        let mut l = k; while !live[l] { l -= 1; }
        let mut r = k + 1; while !live[r] { r += 1; }
        vals[l] = comb(vals[l], vals[r]); live[r] = false;
    }
    let expect = vals[0];
    let vars = [M { v: x0, id: 0, moved: false }, M { v: x1, id: 1, moved: false }];
    let r_clone = eval_flatex_cloning(&vars, &nodes, &ops, &order);
    unsafe { CLONES = [0; 3]; }
    let mut owned = [M { v: x0, id: 0, moved: false }, M { v: x1, id: 1, moved: false }];
    let r_cons = eval_flatex_consuming_vars(&mut owned, &nodes, &ops, &order);
    match (&r_clone, &r_cons) {
        (Ok(a), Ok(b2)) => {
            assert!(a.v == expect && !a.moved, "C15 borrowing evaluation equals the reference reduction");
            assert!(b2.v == expect && !b2.moved, "C15 consuming evaluation equals borrowing evaluation");
        }
        _ => assert!(false, "C15 both evaluations return Ok"),
    }
    for v in 0..2usize {
        let mut occ = 0; for i in 0..N { if shape[i] as usize == v + 1 { occ += 1; } }
        if occ == 1 { assert!(unsafe { CLONES[v] } == 0, "C15 a variable that occurs exactly once is moved, not cloned"); }
    }
    core::mem::forget((r_clone, r_cons, nodes, ops));
}
harness!(shape_xxx, unwind = 7, |s| { shape_case::<S, 3, 2>(s, [1, 1, 1], [0, 1]) });
harness!(shape_xyx, unwind = 7, |s| { shape_case::<S, 3, 2>(s, [1, 2, 1], [1, 0]) });
harness!(shape_yxyx, unwind = 8, |s| { shape_case::<S, 4, 3>(s, [2, 1, 2, 1], [0, 1, 2]) });
harness!(shape_xlyx, unwind = 8, |s| { shape_case::<S, 4, 3>(s, [1, 0, 2, 1], [2, 0, 1]) });

harness!(consuming_vs_cloning_2, unwind = 6, |s| { run::<S, 2, 1>(s) });
harness!(consuming_vs_cloning_3, unwind = 7, |s| { run::<S, 3, 2>(s) });

// native-only sampled probes: 5 and 36 nodes (beyond the inline capacities 16 / 32), symbolic shapes
pub fn consuming_vs_cloning_4<S: Src>(s: &mut S) { run::<S, 4, 3>(s) }
pub fn consuming_vs_cloning_5<S: Src>(s: &mut S) { run::<S, 5, 4>(s) }
pub fn consuming_vs_cloning_6<S: Src>(s: &mut S) { run::<S, 6, 5>(s) }
pub fn consuming_vs_cloning_36<S: Src>(s: &mut S) { run::<S, 36, 35>(s) }

registry!("c15", consuming_vs_cloning_6, consuming_vs_cloning_4, consuming_vs_cloning_5, consuming_vs_cloning_36, consuming_vs_cloning_2, consuming_vs_cloning_3, shape_xxx, shape_xyx, shape_yxyx, shape_xlyx);
