//! U5 — sign disambiguation `parser::is_operator_binary` (C01 d, C13): complete over its finite
//! domain {binary-only, unary-only, binary+unary operator} x {no left neighbour, number, variable,
//! `(`, `)`, operator}.  Contract from the property text: a sign-like operator is unary exactly
//! when it starts the text or follows an operator or an opening parenthesis.
//! Also `check_partial_index` (C09) and the number recogniser `is_numeric_text` (C13).
use crate::src::Src;
use exmex::verif_hooks::*;
use exmex::{BinOp, Operator};

fn b(a: i32, _b: i32) -> i32 { a }
fn u(a: i32) -> i32 { a }
fn mk_op(shape: u8) -> Operator<'static, i32> {
    let bin = BinOp { apply: b as fn(i32, i32) -> i32, prio: 1, is_commutative: false };
    match shape {
        0 => Operator::make_bin("o", bin),
        1 => Operator::make_unary("o", u),
        _ => Operator::make_bin_unary("o", bin, u),
    }
}

harness!(is_operator_binary_all, unwind = 4, |s| {
    let shape = s.choice(3);
    let left = s.choice(6);
    let op = mk_op(shape);
    let tok: Option<ParsedToken<'static, i32>> = match left {
        0 => None,
        1 => Some(ParsedToken::Num(7)),
        2 => Some(ParsedToken::Var("x")),
        3 => Some(ParsedToken::Paren(Paren::Open)),
        4 => Some(ParsedToken::Paren(Paren::Close)),
        _ => Some(ParsedToken::Op((0, mk_op(s.choice(3))))),
    };
    let r = is_operator_binary(&op, tok.as_ref());
    let operand_on_left = left == 1 || left == 2 || left == 4;
    match shape {
        0 => {
            if left == 5 { assert!(r.is_err(), "C01 sign rule: a binary-only operator directly after an operator is an error"); }
            else { assert!(matches!(r, Ok(true)), "C01 sign rule: a binary-only operator is binary"); }
        }
        1 => assert!(matches!(r, Ok(false)), "C01 sign rule: a unary-only operator is never binary"),
        _ => assert!(matches!(r, Ok(x) if x == operand_on_left), "C13 sign rule: a sign is unary exactly when it starts the text or follows an operator or an opening parenthesis"),
    }
    cover!(s, shape == 2 && left == 0, "sign at start of text");
    cover!(s, shape == 0 && left == 5, "binary after operator");
    core::mem::forget((r, tok, op));
});

harness!(partial_index, unwind = 2, |s| {
    let i = s.usize(); let n = s.usize();
    let r = check_partial_index(i, n, "");
    assert!(r.is_err() == (i >= n), "C09 an index not smaller than the number of variables is an error, any smaller index is accepted");
    core::mem::forget(r);
});

fn numeric_text<S: Src, const L: usize>(s: &mut S) {
    let mut bytes = [0u8; L];
    for x in bytes.iter_mut() { *x = s.u8(); s.assume(*x < 128); }
    let n = s.range_usize(0, L);
    let text = core::str::from_utf8(&bytes[..n]);
    let text = match text { Ok(t) => t, Err(_) => { s.assume(false); return; } };
    let r = is_numeric_text(text);
    // reference: maximal prefix of ASCII digits and dots
    let mut k = 0; let mut dots = 0; let mut digits = 0;
    while k < n && (bytes[k].is_ascii_digit() || bytes[k] == b'.') {
        if bytes[k] == b'.' { dots += 1; } else { digits += 1; }
        k += 1;
    }
    if digits >= 1 && dots <= 1 {
        assert!(matches!(r, Some(t) if t.len() == k), "C13 number literal: digits with at most one inner, leading or trailing dot are read as one literal (the maximal digit/dot prefix)");
    } else {
        assert!(r.is_none(), "C13 number literal: no digit, or more than one dot, is not a number");
    }
    cover!(s, digits >= 1 && dots == 1, "a literal with a dot");
    cover!(s, dots == 2, "two dots");
}
harness!(numeric_text_4, unwind = 7, |s| { numeric_text::<S, 4>(s) });
harness!(numeric_text_6, unwind = 9, |s| { numeric_text::<S, 6>(s) });

/// native-only sampled probe: strings of up to 12 characters over a palette that includes multi-byte
/// characters; same contract as `numeric_text_*` (the returned slice must be the maximal digit/dot prefix)
pub fn numeric_text_utf8<S: Src>(s: &mut S) {
    const PAL: [&str; 14] = ["0", "1", "9", ".", "a", "e", "E", "-", " ", "é", "€", "😀", "π", "٣"];
    let n = s.choice(13) as usize;
    let mut text = String::new();
    for _ in 0..n { text.push_str(PAL[s.choice(14) as usize]); }
    let r = is_numeric_text(&text);
    let bytes = text.as_bytes();
    let mut k = 0; let mut dots = 0; let mut digits = 0;
    while k < bytes.len() && (bytes[k].is_ascii_digit() || bytes[k] == b'.') {
        if bytes[k] == b'.' { dots += 1; } else { digits += 1; }
        k += 1;
    }
    if digits >= 1 && dots <= 1 {
        assert!(matches!(r, Some(t) if t.len() == k && text.starts_with(t)), "C13 number literal: digits with at most one inner, leading or trailing dot are read as one literal (the maximal digit/dot prefix)");
    } else {
        assert!(r.is_none(), "C13 number literal: no digit, or more than one dot, is not a number");
    }
}

registry!("u5", numeric_text_utf8, is_operator_binary_all, partial_index, numeric_text_4, numeric_text_6);
