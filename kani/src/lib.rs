//! Contract harnesses for exmex (see /verif/DESIGN.md).  Every harness body is generic over
//! `src::Src`, so the same function is the Kani proof obligation and the native replay program.
#[macro_use]
pub mod src;
pub mod u1;

use src::Q;
pub type NativeHarness = fn(&mut Q);

/// name -> native instantiation of every harness (used by /verif/replay)
pub fn registry() -> Vec<(&'static str, NativeHarness)> {
    let mut v: Vec<(&'static str, NativeHarness)> = vec![];
    v.extend(u1::registry());
    v
}

