#![recursion_limit = "4096"]
//! Contract harnesses for exmex (see /verif/DESIGN.md).  Every harness body is generic over
//! `src::Src`, so the same function is the Kani proof obligation and the native replay program.
#[macro_use]
pub mod src;
pub mod c04;
pub mod c07;
#[cfg(not(kani))]
pub mod c09;
#[cfg(not(kani))]
pub mod c13;
pub mod c15;
pub mod u1;
pub mod gen_attach;
pub mod gen_float_table;
pub mod gen_value_table;
pub mod u4;
pub mod u5;
pub mod u6;
pub mod u7;
pub mod vgen;
pub mod u8_float;

use src::Q;
pub type NativeHarness = fn(&mut Q);

/// name -> native instantiation of every harness (used by /verif/replay)
pub fn registry() -> Vec<(&'static str, NativeHarness)> {
    let mut v: Vec<(&'static str, NativeHarness)> = vec![];
    v.extend(c04::registry());
    v.extend(c07::registry());
    #[cfg(not(kani))]
    v.extend(c09::registry());
    #[cfg(not(kani))]
    v.extend(c13::registry());
    v.extend(c15::registry());
    v.extend(u1::registry());
    v.extend(u4::registry());
    v.extend(u5::registry());
    v.extend(u6::registry());
    v.extend(u7::registry());
    v.extend(vgen::registry());
    v.extend(u8_float::registry());
    v
}

