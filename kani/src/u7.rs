//! U7 — value operators (properties C16 and C17), instantiated at `Val<i32, f64>`.
//!
//! Every *named* operator function of `value.rs` is reached through a forwarding wrapper of the
//! cfg-guarded hook module and gets one harness over the **whole scalar operand domain**
//! (`Int(any i32) | Float(any f64) | Bool(any) | None | Error`).  The harnesses are loop-free
//! (or loops bounded by operand width), so a success is a proof for all 2^32 / 2^64 values.
//!
//!  * C17 ("total: problems surface as error values") is Kani's own check family on these
//!    calls: no panic, no integer overflow, no failed unwrap, no out-of-bounds.
//!  * C16 ("follows the documented typing and error rules") are the `assert!`s whose name
//!    starts with `C16 `, written from the documented rules, not from the code.
//!
//! The driver attributes a failed check to C16 iff its description starts with "C16 ".
//! Float primitives are replaced by distinct tag functions (`-Z stubbing`), so "which primitive
//! is called, with which arguments" is checked exactly; natively (replay) the real primitives
//! run on both sides of every comparison.
use crate::src::Src;
use crate::gen_value_table::*;
use exmex::{ExError, Val};

pub type V = Val<i32, f64>;

// ---------------------------------------------------------------- float primitive tags (Kani only)
pub fn t1(x: f64, k: u64) -> f64 {
    f64::from_bits(x.to_bits() ^ k)
}
pub fn t2(x: f64, y: f64, k: u64) -> f64 {
    f64::from_bits(x.to_bits().rotate_left(7) ^ y.to_bits() ^ k)
}
macro_rules! tags1 { ($($n:ident = $k:expr),*) => { $(pub fn $n(x: f64) -> f64 { t1(x, $k) })* } }
tags1!(s_sin = 0x0101, s_cos = 0x0202, s_tan = 0x0303, s_asin = 0x0404, s_acos = 0x0505, s_atan = 0x0606,
       s_sinh = 0x0707, s_cosh = 0x0808, s_tanh = 0x0909, s_asinh = 0x0a0a, s_acosh = 0x0b0b, s_atanh = 0x0c0c,
       s_exp = 0x0d0d, s_cbrt = 0x0f0f, s_ln = 0x1010, s_log2 = 0x1111, s_log10 = 0x1212, s_sqrt = 0x1313);
pub fn s_powf(x: f64, y: f64) -> f64 { t2(x, y, 0x2121) }
pub fn s_atan2(x: f64, y: f64) -> f64 { t2(x, y, 0x2222) }
pub fn s_powi(x: f64, n: i32) -> f64 { t2(x, n as f64, 0x2323) }
/// `+` and `*` tags are symmetric (IEEE addition / multiplication are commutative), `-` and `/` are not
pub fn tsym(x: f64, y: f64, k: u64) -> f64 { f64::from_bits((x.to_bits() ^ y.to_bits()).rotate_left(3) ^ (x.to_bits() & y.to_bits()) ^ k) }
pub fn s_add(x: f64, y: f64) -> f64 { tsym(x, y, 0x3131) }
pub fn s_sub(x: f64, y: f64) -> f64 { t2(x, y, 0x3232) }
pub fn s_mul(x: f64, y: f64) -> f64 { tsym(x, y, 0x3333) }
pub fn s_div(x: f64, y: f64) -> f64 { t2(x, y, 0x3434) }
pub fn s_neg(x: f64) -> f64 { t1(x, 0x3535) }
// f32 primitives (second instantiation Val<i64, f32>, totality only): several of them are foreign C
// functions Kani does not model (`atan2f`, ...); they cannot panic, so they are tagged as well
pub fn t1f(x: f32, k: u32) -> f32 { f32::from_bits(x.to_bits() ^ k) }
pub fn t2f(x: f32, y: f32, k: u32) -> f32 { f32::from_bits(x.to_bits().rotate_left(7) ^ y.to_bits() ^ k) }
macro_rules! tags1f { ($($n:ident = $k:expr),*) => { $(pub fn $n(x: f32) -> f32 { t1f(x, $k) })* } }
tags1f!(f_sin = 0x0101, f_cos = 0x0202, f_tan = 0x0303, f_asin = 0x0404, f_acos = 0x0505, f_atan = 0x0606,
        f_sinh = 0x0707, f_cosh = 0x0808, f_tanh = 0x0909, f_asinh = 0x0a0a, f_acosh = 0x0b0b, f_atanh = 0x0c0c,
        f_exp = 0x0d0d, f_cbrt = 0x0f0f, f_ln = 0x1010, f_log2 = 0x1111, f_log10 = 0x1212, f_sqrt = 0x1313);
pub fn f_powf(x: f32, y: f32) -> f32 { t2f(x, y, 0x2121) }
pub fn f_atan2(x: f32, y: f32) -> f32 { t2f(x, y, 0x2222) }
pub fn f_powi(x: f32, n: i32) -> f32 { t2f(x, n as f32, 0x2323) }
// integer primitives whose circuits SAT cannot compare (functional harnesses of * / % only; the
// totality harnesses keep the real primitives, so their panics stay visible)
pub fn s_cmul(x: i32, y: i32) -> Option<i32> { let v = x ^ y ^ 0x5a5a; if (x.wrapping_add(y)) & 4 == 0 { Some(v) } else { None } }
pub fn s_cdiv(x: i32, y: i32) -> Option<i32> { let v = x.rotate_left(3) ^ y ^ 0x6b6b; if y == 0 || (x == i32::MIN && y == -1) { None } else { Some(v) } }
pub fn s_crem(x: i32, y: i32) -> Option<i32> { let v = x.rotate_left(5) ^ y ^ 0x7c7c; if y == 0 || (x == i32::MIN && y == -1) { None } else { Some(v) } }
pub fn s_rem(x: i32, y: i32) -> i32 { x.rotate_left(5) ^ y ^ 0x7c7c }

// ---------------------------------------------------------------- operand generators
// Operand *kinds* are concrete (the harness bodies loop over them), operand *data* is symbolic:
// with a symbolic kind CBMC's symbolic execution also walks the `Array` arms of every operator on
// a garbage SmallVec (measured: 13-21 GB per harness); with a concrete kind those arms are pruned.
pub const SCALAR_KINDS: u8 = 5;
pub const ALL_KINDS: u8 = 9;
pub fn mk<S: Src>(s: &mut S, k: u8) -> V {
    match k {
        0 => Val::Int(s.i32()),
        1 => Val::Float(s.f64()),
        2 => Val::Bool(s.bool()),
        3 => Val::None,
        4 => Val::Error(ExError::new("e")),
        5 => Val::Array(smallvec::smallvec![]),
        6 => Val::Array(smallvec::smallvec![s.f64()]),
        7 => Val::Array(smallvec::smallvec![s.f64(), s.f64()]),
        _ => Val::Array(smallvec::smallvec![s.f64(), s.f64(), s.f64()]),
    }
}
/// clone without walking the variants the value is not in (Val::clone on a symbolic kind is costly)
pub fn dup(v: &V) -> V {
    match v {
        Val::Int(x) => Val::Int(*x),
        Val::Float(x) => Val::Float(*x),
        Val::Bool(x) => Val::Bool(*x),
        Val::None => Val::None,
        Val::Error(_) => Val::Error(ExError::new("e")),
        Val::Array(a) => Val::Array(a.clone()),
    }
}

fn is_err(v: &V) -> bool { matches!(v, Val::Error(_)) }
fn same_f(a: f64, b: f64) -> bool { (a.is_nan() && b.is_nan()) || a.to_bits() == b.to_bits() }
fn is_int(v: &V, e: i32) -> bool { matches!(v, Val::Int(x) if *x == e) }
fn is_float(v: &V, e: f64) -> bool { matches!(v, Val::Float(x) if same_f(*x, e)) }
fn is_bool(v: &V, e: bool) -> bool { matches!(v, Val::Bool(x) if *x == e) }

/// expected result of a documented rule
pub enum Exp { I(i32), F(f64), B(bool), Err, Unspecified }
fn meets(r: &V, e: &Exp) -> bool {
    match e {
        Exp::I(x) => is_int(r, *x),
        Exp::F(x) => is_float(r, *x),
        Exp::B(x) => is_bool(r, *x),
        Exp::Err => is_err(r),
        Exp::Unspecified => true,
    }
}
/// Base domain of the exact `^` obligations with exponent 2 and 3 (two chained 32-bit multipliers
/// are out of reach of the SAT back end): [-2048, 2047] u {MIN, MIN+1, -65536, 65535, 46340, 46341,
/// MAX-1, MAX}.  Totality (C17) of `^` is proved on all 2^32 x 2^32 operands by `vgen::t_caret_bin`.
pub fn narrow_int<S: Src>(s: &mut S) -> i32 {
    const B: [i32; 8] = [i32::MIN, i32::MIN + 1, -65536, 65535, 46340, 46341, i32::MAX - 1, i32::MAX];
    if s.bool() {
        let x = s.i32();
        s.assume(x >= -2048 && x <= 2047);
        x
    } else {
        B[s.choice(8) as usize]
    }
}
fn oi(x: Option<i32>) -> Exp { match x { Some(v) => Exp::I(v), None => Exp::Err } }

// ---------------------------------------------------------------- binary operators
/// documented rule for `+ - * / min max` on scalars: int o int stays int (overflow / division by
/// zero -> error), int meeting float is promoted, error in -> error out, other kinds -> error
fn ref_base(op: u8, a: &V, b: &V) -> Exp {
    use core::ops::{Add, Div, Mul, Sub};
    let fop = |x: f64, y: f64| -> f64 {
        match op { 0 => Add::add(x, y), 1 => Sub::sub(x, y), 2 => Mul::mul(x, y), 3 => Div::div(x, y), 4 => x.min(y), _ => x.max(y) }
    };
    match (a, b) {
        (Val::Int(x), Val::Int(y)) => match op {
            0 => oi(x.checked_add(*y)), 1 => oi(x.checked_sub(*y)), 2 => oi(x.checked_mul(*y)),
            3 => oi(x.checked_div(*y)), 4 => Exp::I(if x <= y { *x } else { *y }), _ => Exp::I(if x >= y { *x } else { *y }),
        },
        (Val::Float(x), Val::Float(y)) => Exp::F(fop(*x, *y)),
        // `/` with an integer zero divisor under a float dividend: the documentation promises an error
        // for integer division by zero and promotion for int-meets-float; both readings are accepted
        (Val::Float(_), Val::Int(0)) if op == 3 => Exp::Unspecified,
        (Val::Float(x), Val::Int(y)) => Exp::F(fop(*x, *y as f64)),
        (Val::Int(x), Val::Float(y)) => Exp::F(fop(*x as f64, *y)),
        _ => Exp::Err,
    }
}
macro_rules! base_harness { ($($h:ident: $f:ident = $op:expr, $msg:literal);* $(;)?) => { $(
    vharness!($h, unwind = 7, extra = [{crate::u7::s_cmul ; i32::checked_mul} {crate::u7::s_cdiv ; i32::checked_div}], |s| {
        for ka in 0..SCALAR_KINDS { for kb in 0..SCALAR_KINDS {
            let a = mk(s, ka);
            let b = mk(s, kb);
            let e = ref_base($op, &a, &b);
            let r = $f(a, b);
            assert!(meets(&r, &e), $msg);
            core::mem::forget(r);
        } }
    });
)* } }
base_harness!(
    b_add: e_plus_bin = 0, "C16 +: int+int stays int (overflow -> error), int meeting float promotes to float, error in -> error out, other kinds -> error";
    b_sub: e_minus_bin = 1, "C16 -: int-int stays int (overflow -> error), int meeting float promotes to float, error in -> error out, other kinds -> error";
    b_mul: e_star_bin = 2, "C16 *: int*int stays int (overflow -> error), int meeting float promotes to float, error in -> error out, other kinds -> error";
    b_div: e_slash_bin = 3, "C16 /: int/int stays int (zero divisor, MIN/-1 -> error), int meeting float promotes to float, error in -> error out, other kinds -> error";
    b_min: e_min_bin = 4, "C16 min: int stays int, int meeting float promotes to float, error in -> error out, other kinds -> error";
    b_max: e_max_bin = 5, "C16 max: int stays int, int meeting float promotes to float, error in -> error out, other kinds -> error";
);

/// integer-only operators: % | & XOR << >>
fn ref_int_only(op: u8, a: &V, b: &V) -> Exp {
    match (a, b) {
        (Val::Int(x), Val::Int(y)) => match op {
            0 => if *y == 0 { Exp::Err } else { oi(x.checked_rem(*y)) },
            1 => Exp::I(x | y), 2 => Exp::I(x & y), 3 => Exp::I(x ^ y),
            4 => if *y < 0 || *y >= 32 { Exp::Err } else { Exp::I(x << y) },
            _ => if *y < 0 || *y >= 32 { Exp::Err } else { Exp::I(x >> y) },
        },
        _ => Exp::Err,
    }
}
macro_rules! int_harness { ($($h:ident: $f:ident = $op:expr, $msg:literal);* $(;)?) => { $(
    vharness!($h, unwind = 7, extra = [{crate::u7::s_rem ; <i32 as core::ops::Rem<i32>>::rem} {crate::u7::s_crem ; i32::checked_rem}], |s| {
        for ka in 0..SCALAR_KINDS { for kb in 0..SCALAR_KINDS {
            let a = mk(s, ka);
            let b = mk(s, kb);
            let e = ref_int_only($op, &a, &b);
            let r = $f(a, b);
            assert!(meets(&r, &e), $msg);
            core::mem::forget(r);
        } }
    });
)* } }
int_harness!(
    b_rem: e_percent_bin = 0, "C16 %: int % int stays int, zero divisor and MIN % -1 -> error, other kinds and errors -> error";
    b_bitwise_or: e_pipe_bin = 1, "C16 |: int | int stays int, other kinds and errors -> error";
    b_bitwise_and: e_amp_bin = 2, "C16 &: int & int stays int, other kinds and errors -> error";
    b_bitwise_xor: e_XOR_bin = 3, "C16 XOR: int XOR int stays int, other kinds and errors -> error";
    b_left_shift: e_lt_lt_bin = 4, "C16 <<: int << int stays int, negative or >= 32 shift -> error, other kinds and errors -> error";
    b_right_shift: e_gt_gt_bin = 5, "C16 >>: int >> int stays int, negative or >= 32 shift -> error, other kinds and errors -> error";
);

vharness!(b_pow, unwind = 34, |s| {
    for ka in 0..SCALAR_KINDS { for kb in 0..SCALAR_KINDS {
        let (a, b) = if ka == 0 && kb == 0 && s.bool() {
            // exact small powers on the narrowed base domain (see narrow_int)
            (Val::Int(narrow_int(s)), Val::Int(s.choice(4) as i32))
        } else { (mk(s, ka), mk(s, kb)) };
        let narrow = matches!(&a, Val::Int(x) if (*x >= -2048 && *x <= 2047) || *x <= -65536 || *x >= 46340);
        let e = match (&a, &b) {
            (Val::Int(_), Val::Int(y)) if *y < 0 => Exp::Err,
            (Val::Int(_), Val::Int(0)) => Exp::I(1),
            (Val::Int(x), Val::Int(1)) => Exp::I(*x),
            (Val::Int(x), Val::Int(2)) if narrow => oi(x.checked_mul(*x)),
            (Val::Int(x), Val::Int(3)) if narrow => oi(x.checked_mul(*x).and_then(|q| q.checked_mul(*x))),
            (Val::Int(x), Val::Int(y)) if (*x >= 2 || *x <= -2) && *y >= 32 => Exp::Err,
            (Val::Int(0), Val::Int(_)) => Exp::I(0),
            (Val::Int(1), Val::Int(_)) => Exp::I(1),
            (Val::Int(-1), Val::Int(y)) => Exp::I(if y % 2 == 0 { 1 } else { -1 }),
            (Val::Int(_), Val::Int(_)) => Exp::Unspecified,
            (Val::Float(x), Val::Float(y)) => Exp::F(x.powf(*y)),
            (Val::Float(x), Val::Int(y)) => Exp::F(x.powi(*y)),
            _ => Exp::Err,
        };
        let both_int = ka == 0 && kb == 0;
        let r = e_caret_bin(a, b);
        assert!(meets(&r, &e), "C16 ^: int^int stays int (negative exponent / overflow -> error), float^float = powf, float^int = powi, errors and other kinds -> error");
        if both_int { assert!(matches!(r, Val::Int(_) | Val::Error(_)), "C16 ^: int^int is int or error"); }
        core::mem::forget(r);
    } }
});

vharness!(b_pow_i64, unwind = 7, |s| {
    // second instantiation Val<i64, f64>: float ^ int with an exponent outside the i32 range is an error value
    // (an out-of-range power is documented to be reported, not silently promoted), inside it is powi
    let x = s.f64(); let y = s.i64();
    let r = e_caret_bin::<i64, f64>(Val::Float(x), Val::Int(y));
    if y < i32::MIN as i64 || y > i32::MAX as i64 {
        assert!(matches!(r, Val::Error(_)), "C16 ^: float ^ int with an exponent that does not fit i32 is an error value");
    } else {
        assert!(matches!(&r, Val::Float(v) if same_f(*v, x.powi(y as i32))), "C16 ^: float ^ int is powi");
    }
    core::mem::forget(r);
});

vharness!(b_atan2, unwind = 7, |s| {
    for ka in 0..SCALAR_KINDS { for kb in 0..SCALAR_KINDS {
        let a = mk(s, ka); let b = mk(s, kb);
        let tf = |v: &V| -> Option<f64> { match v { Val::Float(x) => Some(*x), Val::Int(x) => Some(*x as f64), Val::Bool(x) => Some(if *x { 1.0 } else { 0.0 }), _ => None } };
        let e = match (tf(&a), tf(&b)) { (Some(y), Some(x)) => Exp::F(y.atan2(x)), _ => Exp::Err };
        let r = e_atan2_bin(a, b);
        assert!(meets(&r, &e), "C16 atan2: atan2(y, x) on numbers (first operand is y), errors / none -> error");
        core::mem::forget(r);
    } }
});

vharness!(b_and_or, unwind = 7, |s| {
    let x = s.bool(); let y = s.bool();
    let r = e_amp_amp_bin(Val::Bool(x), Val::Bool(y));
    assert!(is_bool(&r, x && y), "C16 &&: bool && bool");
    let r2 = e_pipe_pipe_bin(Val::Bool(x), Val::Bool(y));
    assert!(is_bool(&r2, x || y), "C16 ||: bool || bool");
    core::mem::forget((r, r2));
});

// ---------------------------------------------------------------- comparisons: the six closure entries == != < <= > >=
fn num(v: &V) -> Option<f64> { match v { Val::Int(x) => Some(*x as f64), Val::Float(x) => Some(*x), _ => None } }
vharness!(cmp_eq_ord, unwind = 7, |s| {
    for ka in 0..SCALAR_KINDS { for kb in 0..SCALAR_KINDS {
        let a = mk(s, ka); let b = mk(s, kb);
        let e_eq = match (&a, &b) {
            (Val::Int(x), Val::Int(y)) => x == y,
            (Val::Bool(x), Val::Bool(y)) => x == y,
            _ => match (num(&a), num(&b)) { (Some(x), Some(y)) => x == y, _ => false },
        };
        let r_eq = e_eq_eq_bin(dup(&a), dup(&b));
        let r_ne = e_bang_eq_bin(dup(&a), dup(&b));
        assert!(is_bool(&r_eq, e_eq), "C16 ==: numbers compare across int and float, false for mismatched kinds, none and errors");
        assert!(is_bool(&r_ne, !e_eq), "C16 !=: negation of ==");
        let e_ord = match (&a, &b) {
            (Val::Int(x), Val::Int(y)) => (x < y, x <= y, x > y, x >= y),
            _ => match (num(&a), num(&b)) { (Some(x), Some(y)) => (x < y, x <= y, x > y, x >= y), _ => (false, false, false, false) },
        };
        let r_lt = e_lt_bin(dup(&a), dup(&b));
        let r_le = e_lt_eq_bin(dup(&a), dup(&b));
        let r_gt = e_gt_bin(dup(&a), dup(&b));
        let r_ge = e_gt_eq_bin(a, b);
        assert!(is_bool(&r_lt, e_ord.0), "C16 <: numbers ordered across int and float, false for mismatched kinds, bools, none and errors");
        assert!(is_bool(&r_le, e_ord.1), "C16 <=: numbers ordered across int and float, false for mismatched kinds, bools, none and errors");
        assert!(is_bool(&r_gt, e_ord.2), "C16 >: numbers ordered across int and float, false for mismatched kinds, bools, none and errors");
        assert!(is_bool(&r_ge, e_ord.3), "C16 >=: numbers ordered across int and float, false for mismatched kinds, bools, none and errors");
        core::mem::forget((r_eq, r_ne, r_lt, r_le, r_gt, r_ge));
    } }
});

fn same_val(a: &V, b: &V) -> bool {
    match (a, b) {
        (Val::Int(x), Val::Int(y)) => x == y,
        (Val::Float(x), Val::Float(y)) => same_f(*x, *y),
        (Val::Bool(x), Val::Bool(y)) => x == y,
        (Val::None, Val::None) => true,
        (Val::Error(_), Val::Error(_)) => true,
        (Val::Array(x), Val::Array(y)) => x.len() == y.len() && x.iter().zip(y.iter()).all(|(p, q)| same_f(*p, *q)),
        _ => false,
    }
}

fn cond_of(c: &V) -> Option<bool> {
    match c { Val::Bool(x) => Some(*x), Val::Int(n) => Some(*n != 0), Val::Float(x) => Some(*x != 0.0), _ => None }
}
vharness!(if_else, unwind = 7, |s| {
    // `a if c else b` = ((a if c) else b): a when c is true, b otherwise; a condition that is
    // none / error makes the whole expression an error.  a ranges over every kind but None.
    for ka in 0..SCALAR_KINDS { for kc in 0..SCALAR_KINDS {
        if ka == 3 { continue; }
        let a = mk(s, ka); let c = mk(s, kc); let b = mk(s, s_kind_b(ka, kc));
        let cond = cond_of(&c);
        let r_if = e_if_bin(dup(&a), c);
        match cond {
            Some(true) => assert!(same_val(&r_if, &a), "C16 if: first operand when the condition is true"),
            Some(false) => assert!(matches!(r_if, Val::None), "C16 if: none when the condition is false"),
            None => assert!(is_err(&r_if), "C16 if: error when the condition is none / error"),
        }
        let r = e_else_bin(r_if, dup(&b));
        match cond {
            Some(true) => assert!(same_val(&r, &a), "C16 a if c else b: a when c is true"),
            Some(false) => assert!(same_val(&r, &b), "C16 a if c else b: b when c is false"),
            None => assert!(is_err(&r), "C16 a if c else b: error when c is none / error"),
        }
        core::mem::forget((a, b, r));
    } }
});
/// kind of the else-operand: a deterministic function of the other two kinds so that all five kinds occur
fn s_kind_b(ka: u8, kc: u8) -> u8 { (ka + 2 * kc + 1) % 5 }

vharness!(conv_to_bool, unwind = 7, |s| {
    for k in 0..SCALAR_KINDS {
        let a = mk(s, k);
        let e = cond_of(&a);
        let r = a.to_bool();
        match (&r, e) {
            (Ok(b), Some(eb)) => assert!(*b == eb, "C16 to_bool: condition is true iff bool true / number non-zero"),
            (Err(_), None) => (),
            _ => assert!(false, "C16 to_bool: error exactly for none / error operands"),
        }
        core::mem::forget(r);
    }
});

vharness!(unary_plus_log_consts, unwind = 7, |s| {
    for k in 0..SCALAR_KINDS {
        let a = mk(s, k);
        let r = e_plus_un(dup(&a));
        assert!(same_val(&r, &a), "C16 unary +: identity");
        let e = match &a { Val::Float(x) => Exp::F(x.ln()), _ => Exp::Err };
        let l = e_log_un(a);
        assert!(meets(&l, &e), "C16 log: natural logarithm of a float, errors / other kinds -> error");
        core::mem::forget((r, l));
    }
    assert!(is_float(&e_PI_const::<i32, f64>(), std::f64::consts::PI), "C16 constant PI");
    assert!(is_float(&e_u03c0_const::<i32, f64>(), std::f64::consts::PI), "C16 constant π");
    assert!(is_float(&e_E_const::<i32, f64>(), std::f64::consts::E), "C16 constant E");
    assert!(is_float(&e_TAU_const::<i32, f64>(), std::f64::consts::TAU), "C16 constant TAU");
    assert!(is_float(&e_u03c4_const::<i32, f64>(), std::f64::consts::TAU), "C16 constant τ");
});

// ---------------------------------------------------------------- unary operators
macro_rules! float_unary { ($($h:ident: $f:ident = $m:ident),*) => { $(
    vharness!($h, unwind = 7, |s| {
        for k in 0..SCALAR_KINDS {
            let a = mk(s, k);
            let e = match &a { Val::Float(x) => Exp::F(x.$m()), _ => Exp::Err };
            let r = $f(a);
            assert!(meets(&r, &e), "C16 float function: float -> float via the primitive of the operator's name, error in -> error out, other kinds -> error");
            core::mem::forget(r);
        }
    });
)* } }
float_unary!(u_sin: e_sin_un = sin, u_cos: e_cos_un = cos, u_tan: e_tan_un = tan, u_asin: e_asin_un = asin, u_acos: e_acos_un = acos,
             u_atan: e_atan_un = atan, u_sinh: e_sinh_un = sinh, u_cosh: e_cosh_un = cosh, u_tanh: e_tanh_un = tanh,
             u_asinh: e_asinh_un = asinh, u_acosh: e_acosh_un = acosh, u_atanh: e_atanh_un = atanh, u_floor: e_floor_un = floor,
             u_ceil: e_ceil_un = ceil, u_trunc: e_trunc_un = trunc, u_fract: e_fract_un = fract, u_exp: e_exp_un = exp,
             u_sqrt: e_sqrt_un = sqrt, u_cbrt: e_cbrt_un = cbrt, u_ln: e_ln_un = ln, u_log2: e_log2_un = log2,
             u_log10: e_log10_un = log10, u_round: e_round_un = round);

macro_rules! int_unary { ($($h:ident: $f:ident = $m:ident),*) => { $(
    vharness!($h, unwind = 7, |s| {
        for k in 0..SCALAR_KINDS {
            let a = mk(s, k);
            let e = match &a { Val::Int(x) => Exp::I(x.$m()), _ => Exp::Err };
            let r = $f(a);
            assert!(meets(&r, &e), "C16 integer byte-order function: int -> int via the primitive of the operator's name, error in -> error out, other kinds -> error");
            core::mem::forget(r);
        }
    });
)* } }
int_unary!(u_swap_bytes: e_swap_bytes_un = swap_bytes, u_to_le: e_to_le_un = to_le, u_to_be: e_to_be_un = to_be);

macro_rules! unary_ref { ($($h:ident: $f:ident, $unw:expr, $msg:literal, |$a:ident| $e:expr);* $(;)?) => { $(
    vharness!($h, unwind = $unw, |s| {
        for k in 0..SCALAR_KINDS {
            let $a = mk(s, k);
            let e: Exp = $e;
            let r = $f($a);
            assert!(meets(&r, &e), $msg);
            core::mem::forget(r);
        }
    });
)* } }
const FACT: [i32; 13] = [1, 1, 2, 6, 24, 120, 720, 5040, 40320, 362880, 3628800, 39916800, 479001600];
unary_ref!(
    u_abs: e_abs_un, 7, "C16 abs: |int| stays int (MIN -> error), |float|, errors / other kinds -> error",
        |a| match &a { Val::Float(x) => Exp::F(x.abs()), Val::Int(x) => oi(x.checked_abs()), _ => Exp::Err };
    u_signum: e_signum_un, 7, "C16 signum: sign of int stays int, sign of float, errors / other kinds -> error",
        |a| match &a { Val::Float(x) => Exp::F(x.signum()), Val::Int(x) => Exp::I(x.signum()), _ => Exp::Err };
    u_minus: e_minus_un, 7, "C16 unary -: -int stays int (MIN -> error), -float, errors / other kinds -> error",
        |a| match &a { Val::Float(x) => Exp::F(core::ops::Neg::neg(*x)), Val::Int(x) => oi(x.checked_neg()), _ => Exp::Err };
    u_fact: e_fact_un, 16, "C16 fact: n! for 0 <= n <= 12, negative / overflowing / non-int -> error",
        |a| match &a { Val::Int(n) if *n >= 0 && *n <= 12 => Exp::I(FACT[*n as usize]), _ => Exp::Err };
    u_cast_to_int: e_to_int_un, 7, "C16 to_int: int, bool -> 0/1, float truncated when representable, NaN / inf / out of range / none / error -> error",
        |a| match &a {
            Val::Int(x) => Exp::I(*x),
            Val::Bool(b) => Exp::I(*b as i32),
            Val::Float(x) => if x.is_nan() || *x <= -2147483649.0 || *x >= 2147483648.0 { Exp::Err } else { Exp::I(*x as i32) },
            _ => Exp::Err,
        };
    u_cast_to_float: e_to_float_un, 7, "C16 to_float: float, int -> float, bool -> 0/1, none / error -> error",
        |a| match &a { Val::Float(x) => Exp::F(*x), Val::Bool(b) => Exp::F(if *b { 1.0 } else { 0.0 }), Val::Int(x) => Exp::F(*x as f64), _ => Exp::Err };
);

vharness!(conv_to_int_float, unwind = 7, |s| {
    // public conversion methods: never panic, error exactly for none / error / unrepresentable
    for k in 0..SCALAR_KINDS {
        let a = mk(s, k);
        let r1 = dup(&a).to_int();
        let r2 = dup(&a).to_float();
        match &a {
            Val::Int(x) => { assert!(matches!(r1, Ok(v) if v == *x), "C16 to_int(): int unchanged"); assert!(matches!(r2, Ok(v) if v == *x as f64), "C16 to_float(): int -> float"); }
            Val::None | Val::Error(_) => { assert!(r1.is_err() && r2.is_err(), "C16 to_int()/to_float(): none and error -> Err"); }
            _ => (),
        }
        core::mem::forget((a, r1, r2));
    }
});

// ---------------------------------------------------------------- vector operators
vharness!(vec_scalar_ops, unwind = 7, |s| {
    // scalar operands on the vector operators: error in -> error out, wrong kinds -> error
    for ka in 0..SCALAR_KINDS { for kb in 0..SCALAR_KINDS {
        let a = mk(s, ka); let b = mk(s, kb);
        let r1 = e_dot_bin(dup(&a), dup(&b));
        let r2 = e_cross_bin(dup(&a), dup(&b));
        let r3 = e_period_bin(dup(&a), b);
        let r4 = e_length_un(a);
        assert!(is_err(&r1) && is_err(&r2) && is_err(&r3) && is_err(&r4), "C16 dot/cross/./length: scalar, none and error operands -> error");
        core::mem::forget((r1, r2, r3, r4));
    } }
});
fn fmul(a: f64, b: f64) -> f64 { core::ops::Mul::mul(a, b) }
fn fsub(a: f64, b: f64) -> f64 { core::ops::Sub::sub(a, b) }
fn arr(xs: &[f64; 3], n: usize) -> V {
    // concrete shapes, symbolic data (a symbolic length inside SmallVec::collect explodes in CBMC)
    match n {
        0 => Val::Array(smallvec::smallvec![]),
        1 => Val::Array(smallvec::smallvec![xs[0]]),
        2 => Val::Array(smallvec::smallvec![xs[0], xs[1]]),
        _ => Val::Array(smallvec::smallvec![xs[0], xs[1], xs[2]]),
    }
}
vharness!(vec_dot_cross, unwind = 7, |s| {
    let xs = [s.f64(), s.f64(), s.f64()]; let ys = [s.f64(), s.f64(), s.f64()];
    let i = s.i32();
    for n in 0..4usize { for m in 0..4usize {
        let a: V = arr(&xs, n);
        let b: V = arr(&ys, m);
        let r = e_dot_bin(dup(&a), dup(&b));
        if n != m { assert!(is_err(&r), "C16 dot: different lengths -> error"); } else {
            // float arithmetic through the operator traits: uninterpreted under Kani exactly like in the generic code under test
            let mut acc = 0.0f64; for j in 0..n { acc = core::ops::Add::add(acc, core::ops::Mul::mul(xs[j], ys[j])); }
            assert!(is_float(&r, acc), "C16 dot: sum of products");
        }
        let c = e_cross_bin(dup(&a), b);
        if n != 3 || m != 3 { assert!(is_err(&c), "C16 cross: lengths other than 3 -> error"); } else {
            match &c { Val::Array(v) => assert!(v.len() == 3 && same_f(v[0], fsub(fmul(xs[1], ys[2]), fmul(xs[2], ys[1]))) && same_f(v[1], fsub(fmul(xs[2], ys[0]), fmul(xs[0], ys[2]))) && same_f(v[2], fsub(fmul(xs[0], ys[1]), fmul(xs[1], ys[0]))), "C16 cross: right-handed cross product"),
                       _ => assert!(false, "C16 cross: result is an array") }
        }
        core::mem::forget((r, c));
        if m == 0 {
            let comp = e_period_bin(dup(&a), Val::Int(i));
            if i < 0 || i as usize >= n { assert!(is_err(&comp), "C16 .: index out of range -> error"); } else { assert!(is_float(&comp, xs[i as usize]), "C16 .: i-th entry"); }
            let l = e_length_un(a);
            assert!(matches!(l, Val::Float(_)), "C16 length: float for an array");
            core::mem::forget((comp, l));
        } else { core::mem::forget(a); }
    } }
});

// ---------------------------------------------------------------- second instantiation Val<i64, f32> (totality only)
pub trait DrawI: Sized { fn draw<S: Src>(s: &mut S) -> Self; }
impl DrawI for i32 { fn draw<S: Src>(s: &mut S) -> Self { s.i32() } }
impl DrawI for i64 { fn draw<S: Src>(s: &mut S) -> Self { s.i64() } }
pub trait DrawF: Sized { fn draw<S: Src>(s: &mut S) -> Self; }
impl DrawF for f64 { fn draw<S: Src>(s: &mut S) -> Self { s.f64() } }
impl DrawF for f32 { fn draw<S: Src>(s: &mut S) -> Self { s.f32() } }
pub fn mkg<S: Src, I, F>(s: &mut S, k: u8) -> Val<I, F>
where
    I: exmex::DataType + num::PrimInt + num::Signed + DrawI,
    F: exmex::DataType + num::Float + DrawF,
{
    match k {
        0 => Val::Int(I::draw(s)),
        1 => Val::Float(F::draw(s)),
        2 => Val::Bool(s.bool()),
        3 => Val::None,
        _ => Val::Error(ExError::new("e")),
    }
}
/// C17 on another instantiation of the generic value type: the entry returns for every scalar operand
pub fn total2g<S: Src, I, F, G: Fn(Val<I, F>, Val<I, F>) -> Val<I, F>>(s: &mut S, g: G)
where
    I: exmex::DataType + num::PrimInt + num::Signed + DrawI,
    F: exmex::DataType + num::Float + DrawF,
{
    for ka in 0..SCALAR_KINDS { for kb in 0..SCALAR_KINDS {
        let a = mkg::<S, I, F>(s, ka); let b = mkg::<S, I, F>(s, kb);
        let r = g(a, b);
        core::mem::forget(r);
    } }
}
pub fn total1g<S: Src, I, F, G: Fn(Val<I, F>) -> Val<I, F>>(s: &mut S, g: G)
where
    I: exmex::DataType + num::PrimInt + num::Signed + DrawI,
    F: exmex::DataType + num::Float + DrawF,
{
    for k in 0..SCALAR_KINDS {
        let a = mkg::<S, I, F>(s, k);
        let r = g(a);
        core::mem::forget(r);
    }
}

// ---------------------------------------------------------------- helpers for the generated per-entry harnesses (vgen.rs)
/// C17: the entry returns (no panic, no overflow, no failed unwrap, no out-of-bounds) for every
/// operand; C16: an error operand gives an error result for the operator families the documentation
/// lists (arithmetic, bitwise, power, vector, unary) — `propagates` is decided by the generator.
pub fn total2<S: Src, G: Fn(V, V) -> V>(s: &mut S, g: G, arrays: bool, propagates: bool) {
    let kinds = if arrays { ALL_KINDS } else { SCALAR_KINDS };
    for ka in 0..kinds { for kb in 0..kinds {
        if arrays && ka < SCALAR_KINDS && kb < SCALAR_KINDS { continue; } // scalar x scalar is the scalar tier
        let a = mk(s, ka); let b = mk(s, kb);
        let r = g(a, b);
        if propagates && (ka == 4 || kb == 4) { assert!(is_err(&r), "C16 error operand -> error result"); }
        core::mem::forget(r);
    } }
}
pub fn total1<S: Src, G: Fn(V) -> V>(s: &mut S, g: G, arrays: bool, propagates: bool) {
    let (lo, hi) = if arrays { (SCALAR_KINDS, ALL_KINDS) } else { (0, SCALAR_KINDS) };
    for k in lo..hi {
        let a = mk(s, k);
        let r = g(a);
        if propagates && k == 4 { assert!(is_err(&r), "C16 error operand -> error result"); }
        core::mem::forget(r);
    }
}
pub const DOM_INTBOOL: u8 = 0;
pub const DOM_BOOL: u8 = 1;
pub const DOM_SMALLINT: u8 = 2;
pub const DOM_ARR3: u8 = 3;
fn ac_operand<S: Src>(s: &mut S, dom: u8, kind: u8) -> V {
    match dom {
        DOM_BOOL => Val::Bool(s.bool()),
        DOM_SMALLINT => { let x = s.i32(); s.assume(x >= -100 && x <= 100); Val::Int(x) }
        DOM_ARR3 => { let xs = [s.f64(), s.f64(), s.f64()]; arr(&xs, 3) }
        _ => if kind == 0 { Val::Int(s.i32()) } else { Val::Bool(s.bool()) },
    }
}
/// O-flag-AC: an entry flagged `is_commutative` really is commutative and associative on its
/// documented operand domain whenever no grouping produces an error value (C01/C02 license the
/// parser to regroup literal operands of flagged operators)
pub fn ac_check<S: Src, G: Fn(V, V) -> V>(s: &mut S, g: G, dom: u8) {
    let nk: u8 = if dom == DOM_INTBOOL { 2 } else { 1 };
    for ka in 0..nk { for kb in 0..nk { for kc in 0..nk {
        let a = ac_operand(s, dom, ka); let b = ac_operand(s, dom, kb); let c = ac_operand(s, dom, kc);
        let ab = g(dup(&a), dup(&b));
        let ba = g(dup(&b), dup(&a));
        if !is_err(&ab) && !is_err(&ba) {
            assert!(same_val(&ab, &ba), "C16 flagged commutative: f(a, b) == f(b, a)");
        }
        let bc = g(b, dup(&c));
        // the intermediate results have a symbolic kind; feed them back with a concrete one
        let l = with_kind(ab, dom == DOM_ARR3, |x| g(x, dup(&c)));
        let r = with_kind(bc, dom == DOM_ARR3, |x| g(dup(&a), x));
        if !is_err(&l) && !is_err(&r) {
            assert!(same_val(&l, &r), "C16 flagged commutative: f(f(a, b), c) == f(a, f(b, c))");
        }
        core::mem::forget((a, c, ba, l, r));
    } } }
}
/// calls `k` with `v` rebuilt under a concrete variant in every branch (keeps CBMC out of the
/// variants the value is not in)
fn with_kind<K: Fn(V) -> V>(v: V, arrays: bool, k: K) -> V {
    match v {
        Val::Int(x) => k(Val::Int(x)),
        Val::Float(x) => k(Val::Float(x)),
        Val::Bool(x) => k(Val::Bool(x)),
        Val::None => k(Val::None),
        Val::Error(e) => Val::Error(e),
        Val::Array(a) => if arrays { k(Val::Array(a)) } else { Val::Error(ExError::new("array result of a scalar operator")) },
    }
}

registry!("u7",
    b_add, b_sub, b_mul, b_div, b_min, b_max, b_rem, b_bitwise_or, b_bitwise_and, b_bitwise_xor, b_left_shift, b_right_shift,
    b_pow, b_pow_i64, b_atan2, b_and_or, cmp_eq_ord, if_else, unary_plus_log_consts, conv_to_bool,
    u_sin, u_cos, u_tan, u_asin, u_acos, u_atan, u_sinh, u_cosh, u_tanh, u_asinh, u_acosh, u_atanh, u_floor, u_ceil, u_trunc,
    u_fract, u_exp, u_sqrt, u_cbrt, u_ln, u_log2, u_log10, u_round, u_swap_bytes, u_to_le, u_to_be,
    u_abs, u_signum, u_minus, u_fact, u_cast_to_int, u_cast_to_float, conv_to_int_float,
    vec_scalar_ops, vec_dot_cross);
