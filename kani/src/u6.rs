//! U6 — application order (`flat::detail::prioritized_indices_flat`, `deep::prioritized_indices`),
//! property C01 (b): binary operators apply in descending priority, left-to-right among equal
//! priorities; operands of a flagged operator may only be regrouped invisibly.
//!
//! Bounded: N operators (3 quick, 4 thorough) drawn from a symbolic 3-entry operator table with
//! priorities 0..=99, parenthesis depth 0..=2 (`prio + 1000 * depth`), symbolic flags and symbolic
//! literal/variable operand kinds.  Obligations are written from the property text:
//!   O-perm  the result is a permutation of 0..N
//!   O-desc  a higher priority is never applied after a lower one
//!   O-ltr   equal priorities are applied left-to-right, except that a flagged operator may overtake
//!           equal-priority operators on its left only if the nearest operator on its left with
//!           priority <= its own is absent, strictly lower, or the same operator
//!   O-last  (interface lemma under A-attach) the operator carrying the unary chain of its
//!           parenthesis group is applied last within the group
use crate::src::Src;
use exmex::verif_hooks::*;
use exmex::{BinOp, FloatOpsFactory, NumberMatcher};

fn f(a: i32, _b: i32) -> i32 { a }
fn u(x: i32) -> i32 { x }

pub struct In<const N: usize> {
    prio: [i64; N],
    idx: [usize; N],
    comm: [bool; N],
}

fn table<S: Src, const N: usize>(s: &mut S) -> In<N> {
    // a symbolic 3-entry operator table: (base priority, commutative flag).  Up to 3 operators the
    // base priorities range over 0..=99; with 4 and more operators over 0..=3 (every relative order of
    // three priorities incl. adjacent values occurs; the full range needs > 28 GB after the repair)
    let pmax: u8 = if N <= 3 || N >= 40 { 100 } else { 4 };
    let tp = [s.choice(pmax), s.choice(pmax), s.choice(pmax)];
    let tc = [s.bool(), s.bool(), s.bool()];
    let mut i = In { prio: [0; N], idx: [0; N], comm: [false; N] };
    for k in 0..N {
        let e = s.choice(3) as usize;
        let d = s.choice(3);
        i.idx[k] = e;
        i.comm[k] = tc[e];
        i.prio[k] = tp[e] as i64 + 1000 * d as i64;
    }
    i
}

fn flat_ops<const N: usize>(i: &In<N>) -> [FlatOp<i32>; N] {
    core::array::from_fn(|k| FlatOp {
        unary_op: UnaryOp::new(),
        bin_op: BinOpWithIdx { op: BinOp { apply: f, prio: i.prio[k], is_commutative: i.comm[k] }, idx: i.idx[k] },
    })
}

fn pos(order: &[usize], k: usize) -> usize {
    let mut p = 0;
    while p < order.len() {
        if order[p] == k { return p; }
        p += 1;
    }
    usize::MAX
}

fn check_perm_desc<const N: usize>(i: &In<N>, order: &[usize]) {
    assert!(order.len() == N, "C01 O-perm: one entry per operator");
    for k in 0..N { assert!(pos(order, k) < N, "C01 O-perm: every operator is applied exactly once"); }
    for a in 0..N { for b in 0..N {
        if i.prio[a] > i.prio[b] {
            #[cfg(not(kani))]
            if !(pos(order, a) < pos(order, b)) && std::env::var("U6_DEBUG").is_ok() {
                eprintln!("a={} b={} prio={:?} comm={:?} idx={:?} order={:?}", a, b, i.prio, i.comm, i.idx, order);
            }
            assert!(pos(order, a) < pos(order, b), "C01 O-desc: higher priority is applied first");
        }
    } }
}

fn check_ltr<const N: usize>(i: &In<N>, order: &[usize]) {
    for b in 0..N { for a in 0..b {
        if i.prio[a] == i.prio[b] && pos(order, b) < pos(order, a) {
            // b overtook an equal-priority operator on its left: only AC-invisible regrouping is allowed
            assert!(i.comm[b], "C01 O-ltr: only an operator flagged commutative may be applied before an equal-priority operator on its left");
            let mut j = b; let mut ok = true; let mut found = false;
            while j > 0 && !found {
                j -= 1;
                if i.prio[j] <= i.prio[b] { found = true; ok = i.prio[j] < i.prio[b] || i.idx[j] == i.idx[b]; }
            }
            assert!(ok, "C01 O-ltr: regrouping across a different operator of equal priority changes the value (e.g. 1 min 2 + 3, 10 - 2 + 3)");
        }
    } }
}

fn flat_perm_desc<S: Src, const N: usize, const M: usize>(s: &mut S) {
    let i = table::<S, N>(s);
    let ops = flat_ops(&i);
    let nodes: [FlatNode<i32>; M] = core::array::from_fn(|_| FlatNode { kind: if s.bool() { FlatNodeKind::Num(1) } else { FlatNodeKind::Var(0) }, unary_op: UnaryOp::new() });
    let order = prioritized_indices_flat(&ops, &nodes);
    #[cfg(not(kani))]
    if std::env::var("U6_DEBUG").is_ok() {
        let lits: Vec<bool> = nodes.iter().map(|n| matches!(n.kind, FlatNodeKind::Num(_))).collect();
        eprintln!("lits={:?}", lits);
    }
    check_perm_desc(&i, &order);
    core::mem::forget((order, ops, nodes));
}
fn flat_ltr<S: Src, const N: usize, const M: usize>(s: &mut S) {
    let i = table::<S, N>(s);
    let ops = flat_ops(&i);
    let nodes: [FlatNode<i32>; M] = core::array::from_fn(|_| FlatNode { kind: if s.bool() { FlatNodeKind::Num(1) } else { FlatNodeKind::Var(0) }, unary_op: UnaryOp::new() });
    let order = prioritized_indices_flat(&ops, &nodes);
    check_ltr(&i, &order);
    core::mem::forget((order, ops, nodes));
}
fn flat_last<S: Src, const N: usize, const M: usize>(s: &mut S) {
    let i = table::<S, N>(s);
    let mut ops = flat_ops(&i);
    let nodes: [FlatNode<i32>; M] = core::array::from_fn(|_| FlatNode { kind: if s.bool() { FlatNodeKind::Num(1) } else { FlatNodeKind::Var(0) }, unary_op: UnaryOp::new() });
    // a parenthesis group: maximal run a..=b of operators with priority >= d
    let d: i64 = if s.bool() { 1000 } else { 2000 };
    let a = s.usize(); let b = s.usize();
    s.assume(a <= b && b < N);
    for k in 0..N { if k >= a && k <= b { s.assume(i.prio[k] >= d); } }
    s.assume(a == 0 || i.prio[a - 1] < d);
    s.assume(b == N - 1 || i.prio[b + 1] < d);
    // A-attach (flat.rs make_expression / flatten_vecs): the right-most operator of minimal priority
    let mut t = b; let mut k = b;
    while k > a { k -= 1; if i.prio[k] < i.prio[t] { t = k; } }
    ops[t].unary_op = UnaryOp::from_vec(smallvec::smallvec![UnaryFuncWithIdx { f: u as fn(i32) -> i32, idx: 9 }]);
    let order = prioritized_indices_flat(&ops, &nodes);
    for k in 0..N { if k >= a && k <= b && k != t {
        assert!(pos(&order, k) < pos(&order, t), "C01 O-last: the operator carrying the unary chain of a parenthesis group is applied last in the group (e.g. sin(x+3+2))");
    } }
    core::mem::forget((order, ops, nodes));
}

type DN = DeepNode<'static, f64, FloatOpsFactory<f64>, NumberMatcher>;
fn g(a: f64, _b: f64) -> f64 { a }
fn deep_order<S: Src, const N: usize, const M: usize>(s: &mut S, ltr: bool) {
    let i = table::<S, N>(s);
    let ops: [BinOpWithIdx<f64>; N] = core::array::from_fn(|k| BinOpWithIdx { op: BinOp { apply: g, prio: i.prio[k], is_commutative: i.comm[k] }, idx: i.idx[k] });
    let nodes: [DN; M] = core::array::from_fn(|_| if s.bool() { DeepNode::Num(1.0) } else { DeepNode::Var((0, String::new())) });
    let order = prioritized_indices(&ops, &nodes);
    if ltr { check_ltr(&i, &order); } else { check_perm_desc(&i, &order); }
    core::mem::forget((order, ops, nodes));
}

harness!(flat_perm_desc_3, unwind = 6, |s| { flat_perm_desc::<S, 3, 4>(s) });
harness!(flat_ltr_3, unwind = 6, |s| { flat_ltr::<S, 3, 4>(s) });
harness!(flat_last_3, unwind = 6, |s| { flat_last::<S, 3, 4>(s) });
harness!(deep_perm_desc_3, unwind = 6, |s| { deep_order::<S, 3, 4>(s, false) });
harness!(deep_ltr_3, unwind = 6, |s| { deep_order::<S, 3, 4>(s, true) });
harness!(flat_perm_desc_4, unwind = 7, |s| { flat_perm_desc::<S, 4, 5>(s) });
harness!(flat_ltr_4, unwind = 7, |s| { flat_ltr::<S, 4, 5>(s) });
harness!(flat_last_4, unwind = 7, |s| { flat_last::<S, 4, 5>(s) });
harness!(deep_perm_desc_4, unwind = 7, |s| { deep_order::<S, 4, 5>(s, false) });
harness!(deep_ltr_4, unwind = 7, |s| { deep_order::<S, 4, 5>(s, true) });

// ---------------------------------------------------------------- unary attachment sites (assumption A-attach, now checked)
// The two statements that choose the operator a parenthesis group's unary chain is attached to are cut
// from flat.rs on every run (extract/gen_tables.py::gen_attach) into `gen_attach.rs`.  Contract, from the
// property text ("unary operators bind tighter ... parentheses first"): the chain must sit on the operator
// that is applied LAST inside the group, i.e. the right-most operator of minimal priority among the
// operators of the group (for the parser: the trailing run of operators with priority >= depth * 1000).
fn attach_ops<S: Src, const N: usize>(s: &mut S) -> (crate::gen_attach::FlatOpVec<i32>, [i64; N]) {
    let i = table::<S, N>(s);
    let mut v: crate::gen_attach::FlatOpVec<i32> = smallvec::SmallVec::new();
    for k in 0..N {
        v.push(FlatOp { unary_op: UnaryOp::new(), bin_op: BinOpWithIdx { op: BinOp { apply: f, prio: i.prio[k], is_commutative: i.comm[k] }, idx: k } });
    }
    (v, i.prio)
}
fn attach_parse<S: Src, const N: usize>(s: &mut S) {
    let (mut ops, prio) = attach_ops::<S, N>(s);
    let depth = s.choice(3) as i64;
    let got = crate::gen_attach::attach_target_parse(&mut ops, depth);
    // reference: walk from the right while the priority belongs to this depth or deeper; right-most minimum
    let mut best: Option<usize> = None;
    let mut k = N;
    while k > 0 {
        k -= 1;
        if prio[k] < depth * 1000 { break; }
        match best { None => best = Some(k), Some(b) => if prio[k] < prio[b] { best = Some(k); } }
    }
    assert!(got == best, "C01 parser: the unary chain of a closing parenthesis group is attached to the right-most operator of minimal priority of that group");
    core::mem::forget(ops);
}
fn attach_flatten<S: Src, const N: usize>(s: &mut S) {
    let (mut ops, prio) = attach_ops::<S, N>(s);
    let got = crate::gen_attach::attach_target_flatten(&mut ops);
    let mut best = N - 1;
    let mut k = N - 1;
    while k > 0 { k -= 1; if prio[k] < prio[best] { best = k; } }
    assert!(got == best, "C01 deep -> flat: the unary chain of a deep expression is attached to the right-most operator of minimal priority");
    core::mem::forget(ops);
}
harness!(attach_parse_3, unwind = 6, |s| { attach_parse::<S, 3>(s) });
harness!(attach_flatten_3, unwind = 6, |s| { attach_flatten::<S, 3>(s) });
pub fn attach_parse_40<S: Src>(s: &mut S) { attach_parse::<S, 40>(s) }
pub fn attach_flatten_40<S: Src>(s: &mut S) { attach_flatten::<S, 40>(s) }

// native-only: exhaustive enumeration (`exmex_replay --exhaust`) of sizes CBMC cannot reach (flat form with 4
// operators: > 28 GB); base priorities 0..=3
pub fn flat_perm_desc_5<S: Src>(s: &mut S) { flat_perm_desc::<S, 5, 6>(s) }
pub fn flat_ltr_5<S: Src>(s: &mut S) { flat_ltr::<S, 5, 6>(s) }
pub fn flat_last_5<S: Src>(s: &mut S) { flat_last::<S, 5, 6>(s) }
pub fn deep_ltr_5<S: Src>(s: &mut S) { deep_order::<S, 5, 6>(s, true) }
pub fn attach_parse_4<S: Src>(s: &mut S) { attach_parse::<S, 4>(s) }
pub fn attach_parse_5<S: Src>(s: &mut S) { attach_parse::<S, 5>(s) }
pub fn attach_flatten_4<S: Src>(s: &mut S) { attach_flatten::<S, 4>(s) }
pub fn attach_flatten_5<S: Src>(s: &mut S) { attach_flatten::<S, 5>(s) }

// native-only sampled probes beyond the inline capacity of the index SmallVec (32): the same contract
// bodies with 40 operators; run by `exmex_replay --search`, never under Kani, never counted as proved
pub fn flat_perm_desc_40<S: Src>(s: &mut S) { flat_perm_desc::<S, 40, 41>(s) }
pub fn flat_ltr_40<S: Src>(s: &mut S) { flat_ltr::<S, 40, 41>(s) }
pub fn deep_ltr_40<S: Src>(s: &mut S) { deep_order::<S, 40, 41>(s, true) }

registry!("u6", flat_perm_desc_5, flat_ltr_5, flat_last_5, deep_ltr_5, attach_parse_4, attach_parse_5, attach_flatten_4, attach_flatten_5, attach_parse_3, attach_flatten_3, attach_parse_40, attach_flatten_40, flat_perm_desc_40, flat_ltr_40, deep_ltr_40, flat_perm_desc_3, flat_ltr_3, flat_last_3, deep_perm_desc_3, deep_ltr_3,
    flat_perm_desc_4, flat_ltr_4, flat_last_4, deep_perm_desc_4, deep_ltr_4);
