// GENERATED on every run by /verif/extract/gen_tables.py (gen_attach) from /repo/src/expression/flat.rs — DO NOT EDIT.
// Statement slices of the two unary-attachment sites inside generated frames (see gen_attach's docstring).
#![allow(unused_imports, unused_mut, clippy::all)]
use exmex::verif_hooks::*;
use smallvec::SmallVec;
const DEPTH_PRIO_STEP: i64 = 1000;
pub type FlatOpVec<T> = SmallVec<[FlatOp<T>; N_NODES_ON_STACK]>;
/// make_expression, closing parenthesis at nesting depth `depth`: the operator that receives the unary chain
pub fn attach_target_parse<T: Clone>(flat_ops: &mut FlatOpVec<T>, depth: i64) -> Option<usize> {
                            let lowest_prio_flat_op = flat_ops
                                .iter_mut()
                                .rev()
                                .take_while(|op| op.bin_op.op.prio >= depth * DEPTH_PRIO_STEP)
                                .min_by(|fo1, fo2| fo1.bin_op.op.prio.cmp(&fo2.bin_op.op.prio));
    lowest_prio_flat_op.map(|o| o.bin_op.idx)
}
/// flatten_vecs (deep -> flat): the operator that receives the unary chain of a deep expression
pub fn attach_target_flatten<T: Clone>(flat_ops: &mut FlatOpVec<T>) -> usize {
            let low_prio_op = match flat_ops.iter_mut().rev().min_by_key(|op| op.bin_op.op.prio) {
                None => panic!("cannot have more than one flat node but no binary ops"),
                Some(x) => x,
            };
    low_prio_op.bin_op.idx
}
