//! U8 — default float operator table (property C19), for f64 and f32.
//!
//! Every entry of `FloatOpsFactory::<T>::make()` is reached through the per-entry function that
//! `extract/gen_tables.py` cuts from /repo/src/operators.rs on every run (generic over `T: Float`,
//! exactly as in the impl block).  Contract per entry, from the documentation table of
//! `FloatOpsFactory`: the entry equals the Rust primitive of its documented name, with the
//! documented argument order, bit for bit (NaN compared as a class) for **all** argument bit
//! patterns.  Transcendental primitives are replaced by distinct, argument-order-sensitive tag
//! functions under Kani (`-Z stubbing`), i.e. they are uninterpreted: a swapped `sin`/`cos`, a
//! swapped `atan2(x, y)`, `log` calling `log10` are all refuted.  The arithmetic operators reach the
//! primitives through `core::ops::{Add, Sub, Mul, Div, Neg}` in the generic table code; those trait
//! impls are stubbed by tags too (two float multiplier / divider circuits cannot be proved equal by
//! the SAT back end), so `a - b` vs `b - a`, `*` vs `/` are refuted while the primitive itself is
//! uninterpreted.  `abs`, `signum`, `floor`, `ceil`, `round`, `trunc`, `fract`, `min`, `max` are
//! compared against CBMC's bit-precise IEEE-754 model of the same primitive.
use crate::gen_float_table as ft;
#[allow(unused_imports)]
use crate::src::Src;

macro_rules! tagset { ($T:ty, $B:ty, $($n:ident = $k:expr),*) => { $(pub fn $n(x: $T) -> $T { <$T>::from_bits(x.to_bits() ^ ($k as $B)) })* } }
pub mod t64 {
    tagset!(f64, u64, sin = 0x0101, cos = 0x0202, tan = 0x0303, asin = 0x0404, acos = 0x0505, atan = 0x0606, sinh = 0x0707, cosh = 0x0808,
        tanh = 0x0909, asinh = 0x0a0a, acosh = 0x0b0b, atanh = 0x0c0c, exp = 0x0d0d, cbrt = 0x0f0f, ln = 0x1010, log2 = 0x1111, log10 = 0x1212, sqrt = 0x1313);
    pub fn powf(x: f64, y: f64) -> f64 { f64::from_bits(x.to_bits().rotate_left(7) ^ y.to_bits() ^ 0x2121) }
    pub fn atan2(x: f64, y: f64) -> f64 { f64::from_bits(x.to_bits().rotate_left(7) ^ y.to_bits() ^ 0x2222) }
    pub fn add(x: f64, y: f64) -> f64 { f64::from_bits(x.to_bits().rotate_left(7) ^ y.to_bits() ^ 0x3131) }
    pub fn sub(x: f64, y: f64) -> f64 { f64::from_bits(x.to_bits().rotate_left(7) ^ y.to_bits() ^ 0x3232) }
    pub fn mul(x: f64, y: f64) -> f64 { f64::from_bits(x.to_bits().rotate_left(7) ^ y.to_bits() ^ 0x3333) }
    pub fn div(x: f64, y: f64) -> f64 { f64::from_bits(x.to_bits().rotate_left(7) ^ y.to_bits() ^ 0x3434) }
    pub fn neg(x: f64) -> f64 { f64::from_bits(x.to_bits() ^ 0x3535) }
}
pub mod t32 {
    tagset!(f32, u32, sin = 0x0101, cos = 0x0202, tan = 0x0303, asin = 0x0404, acos = 0x0505, atan = 0x0606, sinh = 0x0707, cosh = 0x0808,
        tanh = 0x0909, asinh = 0x0a0a, acosh = 0x0b0b, atanh = 0x0c0c, exp = 0x0d0d, cbrt = 0x0f0f, ln = 0x1010, log2 = 0x1111, log10 = 0x1212, sqrt = 0x1313);
    pub fn powf(x: f32, y: f32) -> f32 { f32::from_bits(x.to_bits().rotate_left(7) ^ y.to_bits() ^ 0x2121) }
    pub fn atan2(x: f32, y: f32) -> f32 { f32::from_bits(x.to_bits().rotate_left(7) ^ y.to_bits() ^ 0x2222) }
    pub fn add(x: f32, y: f32) -> f32 { f32::from_bits(x.to_bits().rotate_left(7) ^ y.to_bits() ^ 0x3131) }
    pub fn sub(x: f32, y: f32) -> f32 { f32::from_bits(x.to_bits().rotate_left(7) ^ y.to_bits() ^ 0x3232) }
    pub fn mul(x: f32, y: f32) -> f32 { f32::from_bits(x.to_bits().rotate_left(7) ^ y.to_bits() ^ 0x3333) }
    pub fn div(x: f32, y: f32) -> f32 { f32::from_bits(x.to_bits().rotate_left(7) ^ y.to_bits() ^ 0x3434) }
    pub fn neg(x: f32) -> f32 { f32::from_bits(x.to_bits() ^ 0x3535) }
}

macro_rules! fharness {
    ($name:ident, $T:ident, $tags:ident, unwind = $u:expr, |$s:ident| $body:block) => {
        pub fn $name<S: $crate::src::Src>($s: &mut S) $body
        #[cfg(kani)]
        mod $name {
            use super::$tags as t;
            #[kani::proof]
            #[kani::stub(std::fmt::format, $crate::src::stub_format)]
            #[kani::stub($T::sin, t::sin)] #[kani::stub($T::cos, t::cos)] #[kani::stub($T::tan, t::tan)]
            #[kani::stub($T::asin, t::asin)] #[kani::stub($T::acos, t::acos)] #[kani::stub($T::atan, t::atan)]
            #[kani::stub($T::sinh, t::sinh)] #[kani::stub($T::cosh, t::cosh)] #[kani::stub($T::tanh, t::tanh)]
            #[kani::stub($T::asinh, t::asinh)] #[kani::stub($T::acosh, t::acosh)] #[kani::stub($T::atanh, t::atanh)]
            #[kani::stub($T::exp, t::exp)] #[kani::stub($T::cbrt, t::cbrt)] #[kani::stub($T::ln, t::ln)]
            #[kani::stub($T::log2, t::log2)] #[kani::stub($T::log10, t::log10)] #[kani::stub($T::sqrt, t::sqrt)]
            #[kani::stub($T::powf, t::powf)] #[kani::stub($T::atan2, t::atan2)]
            #[kani::stub(<$T as core::ops::Add<$T>>::add, t::add)] #[kani::stub(<$T as core::ops::Sub<$T>>::sub, t::sub)]
            #[kani::stub(<$T as core::ops::Mul<$T>>::mul, t::mul)] #[kani::stub(<$T as core::ops::Div<$T>>::div, t::div)]
            #[kani::stub(<$T as core::ops::Neg>::neg, t::neg)]
            #[kani::unwind($u)]
            fn proof() {
                let mut k = $crate::src::K;
                super::$name(&mut k);
                kani::cover!(true, "end-reached");
            }
        }
    };
}

macro_rules! table_body { ($T:ident, $draw:ident, $s:ident) => {{
    let same = |a: $T, b: $T| -> bool { (a.is_nan() && b.is_nan()) || a.to_bits() == b.to_bits() };
    let a: $T = $s.$draw(); let b: $T = $s.$draw();
    // binary entries, documented argument order
    assert!(same(ft::e_caret_bin::<$T>(a, b), a.powf(b)), "C19 ^: a ^ b is a.powf(b)");
    assert!(same(ft::e_star_bin::<$T>(a, b), core::ops::Mul::mul(a, b)), "C19 *: product");
    assert!(same(ft::e_slash_bin::<$T>(a, b), core::ops::Div::div(a, b)), "C19 /: a / b");
    assert!(same(ft::e_plus_bin::<$T>(a, b), core::ops::Add::add(a, b)), "C19 +: sum");
    assert!(same(ft::e_minus_bin::<$T>(a, b), core::ops::Sub::sub(a, b)), "C19 -: a - b");
    assert!(same(ft::e_atan2_bin::<$T>(a, b), a.atan2(b)), "C19 atan2: atan2(y, x) = y.atan2(x)");
    assert!(same(ft::e_min_bin::<$T>(a, b), a.min(b)), "C19 min");
    assert!(same(ft::e_max_bin::<$T>(a, b), a.max(b)), "C19 max");
    // unary + and -
    assert!(same(ft::e_plus_un::<$T>(a), a), "C19 unary +: identity");
    assert!(same(ft::e_minus_un::<$T>(a), core::ops::Neg::neg(a)), "C19 unary -: negation (sign of zero and NaN included)");
    // named unary functions
    assert!(same(ft::e_abs_un::<$T>(a), a.abs()), "C19 abs");
    assert!(same(ft::e_signum_un::<$T>(a), a.signum()), "C19 signum");
    assert!(same(ft::e_sin_un::<$T>(a), a.sin()), "C19 sin");
    assert!(same(ft::e_cos_un::<$T>(a), a.cos()), "C19 cos");
    assert!(same(ft::e_tan_un::<$T>(a), a.tan()), "C19 tan");
    assert!(same(ft::e_asin_un::<$T>(a), a.asin()), "C19 asin");
    assert!(same(ft::e_acos_un::<$T>(a), a.acos()), "C19 acos");
    assert!(same(ft::e_atan_un::<$T>(a), a.atan()), "C19 atan");
    assert!(same(ft::e_sinh_un::<$T>(a), a.sinh()), "C19 sinh");
    assert!(same(ft::e_cosh_un::<$T>(a), a.cosh()), "C19 cosh");
    assert!(same(ft::e_tanh_un::<$T>(a), a.tanh()), "C19 tanh");
    assert!(same(ft::e_asinh_un::<$T>(a), a.asinh()), "C19 asinh");
    assert!(same(ft::e_acosh_un::<$T>(a), a.acosh()), "C19 acosh");
    assert!(same(ft::e_atanh_un::<$T>(a), a.atanh()), "C19 atanh");
    assert!(same(ft::e_floor_un::<$T>(a), a.floor()), "C19 floor");
    assert!(same(ft::e_round_un::<$T>(a), a.round()), "C19 round");
    assert!(same(ft::e_ceil_un::<$T>(a), a.ceil()), "C19 ceil");
    assert!(same(ft::e_trunc_un::<$T>(a), a.trunc()), "C19 trunc");
    assert!(same(ft::e_fract_un::<$T>(a), a.fract()), "C19 fract");
    assert!(same(ft::e_exp_un::<$T>(a), a.exp()), "C19 exp");
    assert!(same(ft::e_sqrt_un::<$T>(a), a.sqrt()), "C19 sqrt");
    assert!(same(ft::e_cbrt_un::<$T>(a), a.cbrt()), "C19 cbrt");
    assert!(same(ft::e_ln_un::<$T>(a), a.ln()), "C19 ln: natural logarithm");
    assert!(same(ft::e_log2_un::<$T>(a), a.log2()), "C19 log2");
    assert!(same(ft::e_log10_un::<$T>(a), a.log10()), "C19 log10");
    assert!(same(ft::e_log_un::<$T>(a), a.ln()), "C19 log: natural logarithm");
    // constants
    assert!(ft::e_PI_const::<$T>() == std::f64::consts::PI as $T, "C19 PI");
    assert!(ft::e_u03c0_const::<$T>() == std::f64::consts::PI as $T, "C19 π");
    assert!(ft::e_E_const::<$T>() == std::f64::consts::E as $T, "C19 E");
    assert!(ft::e_e_const::<$T>() == std::f64::consts::E as $T, "C19 e");
    assert!(ft::e_TAU_const::<$T>() == std::f64::consts::TAU as $T, "C19 TAU");
    assert!(ft::e_u03c4_const::<$T>() == std::f64::consts::TAU as $T, "C19 τ");
}} }

fharness!(float_table_f64, f64, t64, unwind = 3, |s| { table_body!(f64, f64, s) });
fharness!(float_table_f32, f32, t32, unwind = 3, |s| { table_body!(f32, f32, s) });

/// the documentation table lists exactly these names; the generated TABLE (cut from the source)
/// must contain each of them with the documented role, and nothing else
pub const DOCUMENTED: &[(&str, &str)] = &[
    ("^", "make_bin"), ("*", "make_bin"), ("/", "make_bin"), ("+", "make_bin_unary"), ("-", "make_bin_unary"),
    ("atan2", "make_bin"), ("min", "make_bin"), ("max", "make_bin"),
    ("abs", "make_unary"), ("signum", "make_unary"), ("sin", "make_unary"), ("cos", "make_unary"), ("tan", "make_unary"),
    ("asin", "make_unary"), ("acos", "make_unary"), ("atan", "make_unary"), ("sinh", "make_unary"), ("cosh", "make_unary"),
    ("tanh", "make_unary"), ("asinh", "make_unary"), ("acosh", "make_unary"), ("atanh", "make_unary"),
    ("floor", "make_unary"), ("round", "make_unary"), ("ceil", "make_unary"), ("trunc", "make_unary"), ("fract", "make_unary"),
    ("exp", "make_unary"), ("sqrt", "make_unary"), ("cbrt", "make_unary"), ("ln", "make_unary"), ("log2", "make_unary"),
    ("log10", "make_unary"), ("log", "make_unary"),
    ("PI", "make_constant"), ("π", "make_constant"), ("E", "make_constant"), ("e", "make_constant"), ("TAU", "make_constant"), ("τ", "make_constant"),
];
fn str_eq(a: &str, b: &str) -> bool {
    let (a, b) = (a.as_bytes(), b.as_bytes());
    if a.len() != b.len() { return false; }
    let mut i = 0;
    while i < a.len() { if a[i] != b[i] { return false; } i += 1; }
    true
}
harness!(float_table_shape, unwind = 45, |s| {
    // concrete: the extracted table has exactly the documented entries with the documented roles
    let _ = s.bool();
    assert!(ft::TABLE.len() == DOCUMENTED.len(), "C19 the default table has exactly the 34 operators and 6 constants of the documentation");
    let mut i = 0;
    while i < DOCUMENTED.len() {
        let mut found = false;
        let mut j = 0;
        while j < ft::TABLE.len() {
            if str_eq(ft::TABLE[j].repr, DOCUMENTED[i].0) && str_eq(ft::TABLE[j].ctor, DOCUMENTED[i].1) { found = true; }
            j += 1;
        }
        assert!(found, "C19 every documented operator / constant is in the table with its documented role (binary, unary, both, constant)");
        i += 1;
    }
});

/// G3 gap for the float table (thorough tier): the run-time table built by the real
/// `FloatOpsFactory::<f64>::make()` is called through its fn pointers and compared with the same
/// primitives; entries are addressed by concrete index, after asserting their `repr()`.
macro_rules! real_un { ($ops:ident, $i:expr, $name:literal, $a:ident, $m:ident) => {
    assert!(str_eq($ops[$i].repr(), $name), "C19 real table: entry order as extracted");
    let f = $ops[$i].unary().unwrap();
    let r = f($a); let e = $a.$m();
    assert!((r.is_nan() && e.is_nan()) || r.to_bits() == e.to_bits(), concat!("C19 real table: ", $name));
} }
fharness!(float_table_real_f64_a, f64, t64, unwind = 45, |s| {
    use exmex::{FloatOpsFactory, MakeOperators};
    let ops = FloatOpsFactory::<f64>::make();
    let a = s.f64(); let b = s.f64();
    let same = |x: f64, y: f64| -> bool { (x.is_nan() && y.is_nan()) || x.to_bits() == y.to_bits() };
    assert!(ops.len() == ft::TABLE.len(), "C19 real table: same number of entries as the extracted one");
    assert!(str_eq(ops[0].repr(), "^") && same((ops[0].bin().unwrap().apply)(a, b), a.powf(b)), "C19 real table: ^");
    assert!(str_eq(ops[1].repr(), "*") && same((ops[1].bin().unwrap().apply)(a, b), core::ops::Mul::mul(a, b)), "C19 real table: *");
    assert!(str_eq(ops[2].repr(), "/") && same((ops[2].bin().unwrap().apply)(a, b), core::ops::Div::div(a, b)), "C19 real table: /");
    assert!(str_eq(ops[3].repr(), "+") && same((ops[3].bin().unwrap().apply)(a, b), core::ops::Add::add(a, b)), "C19 real table: +");
    assert!(str_eq(ops[4].repr(), "-") && same((ops[4].bin().unwrap().apply)(a, b), core::ops::Sub::sub(a, b)), "C19 real table: -");
    assert!(str_eq(ops[5].repr(), "atan2") && same((ops[5].bin().unwrap().apply)(a, b), a.atan2(b)), "C19 real table: atan2");
    assert!(str_eq(ops[6].repr(), "min") && same((ops[6].bin().unwrap().apply)(a, b), a.min(b)), "C19 real table: min");
    assert!(str_eq(ops[7].repr(), "max") && same((ops[7].bin().unwrap().apply)(a, b), a.max(b)), "C19 real table: max");
    assert!(same((ops[3].unary().unwrap())(a), a), "C19 real table: unary +");
    assert!(same((ops[4].unary().unwrap())(a), core::ops::Neg::neg(a)), "C19 real table: unary -");
    core::mem::forget(ops);
});
fharness!(float_table_real_f64_b, f64, t64, unwind = 45, |s| {
    use exmex::{FloatOpsFactory, MakeOperators};
    let ops = FloatOpsFactory::<f64>::make();
    let a = s.f64();
    real_un!(ops, 8, "abs", a, abs); real_un!(ops, 9, "signum", a, signum); real_un!(ops, 10, "sin", a, sin); real_un!(ops, 11, "cos", a, cos);
    real_un!(ops, 12, "tan", a, tan); real_un!(ops, 13, "asin", a, asin); real_un!(ops, 14, "acos", a, acos); real_un!(ops, 15, "atan", a, atan);
    real_un!(ops, 16, "sinh", a, sinh); real_un!(ops, 17, "cosh", a, cosh); real_un!(ops, 18, "tanh", a, tanh); real_un!(ops, 19, "asinh", a, asinh);
    real_un!(ops, 20, "acosh", a, acosh);
    core::mem::forget(ops);
});
fharness!(float_table_real_f64_c, f64, t64, unwind = 45, |s| {
    use exmex::{FloatOpsFactory, MakeOperators};
    let ops = FloatOpsFactory::<f64>::make();
    let a = s.f64();
    real_un!(ops, 21, "atanh", a, atanh); real_un!(ops, 22, "floor", a, floor); real_un!(ops, 23, "round", a, round); real_un!(ops, 24, "ceil", a, ceil);
    real_un!(ops, 25, "trunc", a, trunc); real_un!(ops, 26, "fract", a, fract); real_un!(ops, 27, "exp", a, exp); real_un!(ops, 28, "sqrt", a, sqrt);
    real_un!(ops, 29, "cbrt", a, cbrt); real_un!(ops, 30, "ln", a, ln); real_un!(ops, 31, "log2", a, log2); real_un!(ops, 32, "log10", a, log10);
    real_un!(ops, 33, "log", a, ln);
    core::mem::forget(ops);
});

registry!("u8_float", float_table_f64, float_table_f32, float_table_shape, float_table_real_f64_a, float_table_real_f64_b, float_table_real_f64_c);
