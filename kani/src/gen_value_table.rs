// GENERATED on every run by /verif/extract/gen_tables.py from /repo/src/value.rs — DO NOT EDIT.
// One generic function per entry of ValOpsFactory::make(), expression text cut from the source;
// generic parameters and where clause are the impl block's own (G1, G3).
#![allow(unused_imports, non_snake_case, clippy::all)]
use exmex::verif_hooks::value::*;
use exmex::{DataType, ExError, Val};
use num::{Float, PrimInt, Signed};
use std::{fmt::Debug, str::FromStr};
pub struct Entry { pub repr: &'static str, pub ctor: &'static str, pub apply_src: &'static str, pub unary_src: &'static str, pub prio: Option<i64>, pub comm: Option<bool> }
/// static-dispatch call helpers: give the entry expression its expected signature without coercing it to a `fn` pointer (G4)
#[inline(always)]
pub fn call2<T, G: Fn(T, T) -> T>(g: G, a: T, b: T) -> T { g(a, b) }
#[inline(always)]
pub fn call1<T, G: Fn(T) -> T>(g: G, a: T) -> T { g(a) }
pub const TABLE: &[Entry] = &[
    Entry { repr: "^", ctor: "make_bin", apply_src: "pow", unary_src: "", prio: Some(6), comm: Some(false) },
    Entry { repr: "+", ctor: "make_bin_unary", apply_src: "add", unary_src: "|x| x", prio: Some(3), comm: Some(true) },
    Entry { repr: "-", ctor: "make_bin_unary", apply_src: "sub", unary_src: "minus", prio: Some(3), comm: Some(false) },
    Entry { repr: "cross", ctor: "make_bin", apply_src: "cross", unary_src: "", prio: Some(4), comm: Some(false) },
    Entry { repr: "dot", ctor: "make_bin", apply_src: "dot", unary_src: "", prio: Some(4), comm: Some(true) },
    Entry { repr: "*", ctor: "make_bin", apply_src: "mul", unary_src: "", prio: Some(4), comm: Some(true) },
    Entry { repr: "/", ctor: "make_bin", apply_src: "|a, b| match b { Val::Int(x) if x == I::zero() => { Val::Error(ExError::new(\"int division by zero\")) } _ => div(a, b), }", unary_src: "", prio: Some(5), comm: Some(false) },
    Entry { repr: "atan2", ctor: "make_bin", apply_src: "atan2", unary_src: "", prio: Some(0), comm: Some(false) },
    Entry { repr: "%", ctor: "make_bin", apply_src: "rem", unary_src: "", prio: Some(5), comm: Some(false) },
    Entry { repr: "|", ctor: "make_bin", apply_src: "bitwise_or", unary_src: "", prio: Some(2), comm: Some(true) },
    Entry { repr: "&", ctor: "make_bin", apply_src: "bitwise_and", unary_src: "", prio: Some(2), comm: Some(true) },
    Entry { repr: "XOR", ctor: "make_bin", apply_src: "bitwise_xor", unary_src: "", prio: Some(2), comm: Some(true) },
    Entry { repr: ">>", ctor: "make_bin", apply_src: "right_shift", unary_src: "", prio: Some(2), comm: Some(false) },
    Entry { repr: "<<", ctor: "make_bin", apply_src: "left_shift", unary_src: "", prio: Some(2), comm: Some(false) },
    Entry { repr: "&&", ctor: "make_bin", apply_src: "and", unary_src: "", prio: Some(2), comm: Some(true) },
    Entry { repr: "||", ctor: "make_bin", apply_src: "or", unary_src: "", prio: Some(2), comm: Some(true) },
    Entry { repr: "==", ctor: "make_bin", apply_src: "|a, b| Val::Bool(a == b)", unary_src: "", prio: Some(1), comm: Some(false) },
    Entry { repr: ">=", ctor: "make_bin", apply_src: "|a, b| Val::Bool(a >= b)", unary_src: "", prio: Some(1), comm: Some(false) },
    Entry { repr: ">", ctor: "make_bin", apply_src: "|a, b| Val::Bool(a > b)", unary_src: "", prio: Some(1), comm: Some(false) },
    Entry { repr: "<=", ctor: "make_bin", apply_src: "|a, b| Val::Bool(a <= b)", unary_src: "", prio: Some(1), comm: Some(false) },
    Entry { repr: "<", ctor: "make_bin", apply_src: "|a, b| Val::Bool(a < b)", unary_src: "", prio: Some(1), comm: Some(false) },
    Entry { repr: "!=", ctor: "make_bin", apply_src: "|a, b| Val::Bool(a != b)", unary_src: "", prio: Some(1), comm: Some(false) },
    Entry { repr: "if", ctor: "make_bin", apply_src: "|v, cond| { let condition = match cond.to_bool() { Ok(b) => b, Err(e) => return Val::Error(e), }; if condition { v } else { Val::None } }", unary_src: "", prio: Some(0), comm: Some(false) },
    Entry { repr: "else", ctor: "make_bin", apply_src: "|res_of_if, v| match res_of_if { Val::None => v, _ => res_of_if, }", unary_src: "", prio: Some(0), comm: Some(false) },
    Entry { repr: "min", ctor: "make_bin", apply_src: "|x, y| min(x, y)", unary_src: "", prio: Some(0), comm: Some(false) },
    Entry { repr: "max", ctor: "make_bin", apply_src: "|x, y| max(x, y)", unary_src: "", prio: Some(0), comm: Some(false) },
    Entry { repr: ".", ctor: "make_bin", apply_src: "|x, i| component(x, i)", unary_src: "", prio: Some(5), comm: Some(false) },
    Entry { repr: "signum", ctor: "make_unary", apply_src: "", unary_src: "signum", prio: None, comm: None },
    Entry { repr: "abs", ctor: "make_unary", apply_src: "", unary_src: "abs", prio: None, comm: None },
    Entry { repr: "sin", ctor: "make_unary", apply_src: "", unary_src: "sin", prio: None, comm: None },
    Entry { repr: "cos", ctor: "make_unary", apply_src: "", unary_src: "cos", prio: None, comm: None },
    Entry { repr: "tan", ctor: "make_unary", apply_src: "", unary_src: "tan", prio: None, comm: None },
    Entry { repr: "asin", ctor: "make_unary", apply_src: "", unary_src: "asin", prio: None, comm: None },
    Entry { repr: "acos", ctor: "make_unary", apply_src: "", unary_src: "acos", prio: None, comm: None },
    Entry { repr: "atan", ctor: "make_unary", apply_src: "", unary_src: "atan", prio: None, comm: None },
    Entry { repr: "sinh", ctor: "make_unary", apply_src: "", unary_src: "sinh", prio: None, comm: None },
    Entry { repr: "cosh", ctor: "make_unary", apply_src: "", unary_src: "cosh", prio: None, comm: None },
    Entry { repr: "tanh", ctor: "make_unary", apply_src: "", unary_src: "tanh", prio: None, comm: None },
    Entry { repr: "asinh", ctor: "make_unary", apply_src: "", unary_src: "asinh", prio: None, comm: None },
    Entry { repr: "acosh", ctor: "make_unary", apply_src: "", unary_src: "acosh", prio: None, comm: None },
    Entry { repr: "atanh", ctor: "make_unary", apply_src: "", unary_src: "atanh", prio: None, comm: None },
    Entry { repr: "floor", ctor: "make_unary", apply_src: "", unary_src: "floor", prio: None, comm: None },
    Entry { repr: "ceil", ctor: "make_unary", apply_src: "", unary_src: "ceil", prio: None, comm: None },
    Entry { repr: "trunc", ctor: "make_unary", apply_src: "", unary_src: "trunc", prio: None, comm: None },
    Entry { repr: "fract", ctor: "make_unary", apply_src: "", unary_src: "fract", prio: None, comm: None },
    Entry { repr: "exp", ctor: "make_unary", apply_src: "", unary_src: "exp", prio: None, comm: None },
    Entry { repr: "sqrt", ctor: "make_unary", apply_src: "", unary_src: "sqrt", prio: None, comm: None },
    Entry { repr: "cbrt", ctor: "make_unary", apply_src: "", unary_src: "cbrt", prio: None, comm: None },
    Entry { repr: "round", ctor: "make_unary", apply_src: "", unary_src: "round", prio: None, comm: None },
    Entry { repr: "ln", ctor: "make_unary", apply_src: "", unary_src: "ln", prio: None, comm: None },
    Entry { repr: "log10", ctor: "make_unary", apply_src: "", unary_src: "log10", prio: None, comm: None },
    Entry { repr: "log2", ctor: "make_unary", apply_src: "", unary_src: "log2", prio: None, comm: None },
    Entry { repr: "log", ctor: "make_unary", apply_src: "", unary_src: "ln", prio: None, comm: None },
    Entry { repr: "swap_bytes", ctor: "make_unary", apply_src: "", unary_src: "swap_bytes", prio: None, comm: None },
    Entry { repr: "to_le", ctor: "make_unary", apply_src: "", unary_src: "to_le", prio: None, comm: None },
    Entry { repr: "to_be", ctor: "make_unary", apply_src: "", unary_src: "to_be", prio: None, comm: None },
    Entry { repr: "fact", ctor: "make_unary", apply_src: "", unary_src: "fact", prio: None, comm: None },
    Entry { repr: "to_int", ctor: "make_unary", apply_src: "", unary_src: "cast_to_int", prio: None, comm: None },
    Entry { repr: "to_float", ctor: "make_unary", apply_src: "", unary_src: "cast_to_float", prio: None, comm: None },
    Entry { repr: "length", ctor: "make_unary", apply_src: "", unary_src: "length", prio: None, comm: None },
    Entry { repr: "PI", ctor: "make_constant", apply_src: "", unary_src: "", prio: None, comm: None },
    Entry { repr: "π", ctor: "make_constant", apply_src: "", unary_src: "", prio: None, comm: None },
    Entry { repr: "E", ctor: "make_constant", apply_src: "", unary_src: "", prio: None, comm: None },
    Entry { repr: "TAU", ctor: "make_constant", apply_src: "", unary_src: "", prio: None, comm: None },
    Entry { repr: "τ", ctor: "make_constant", apply_src: "", unary_src: "", prio: None, comm: None },
];
/// binary entry `^` of the value table
pub fn e_caret_bin<I, F>(a: Val<I, F>, b: Val<I, F>) -> Val<I, F>
where
    I: DataType + PrimInt + Signed,
    F: DataType + Float,
    <I as FromStr>::Err: Debug,
    <F as FromStr>::Err: Debug,
{
    call2::<Val<I, F>, _>(v_pow, a, b)
}
/// binary entry `+` of the value table
pub fn e_plus_bin<I, F>(a: Val<I, F>, b: Val<I, F>) -> Val<I, F>
where
    I: DataType + PrimInt + Signed,
    F: DataType + Float,
    <I as FromStr>::Err: Debug,
    <F as FromStr>::Err: Debug,
{
    call2::<Val<I, F>, _>(v_add, a, b)
}
/// unary entry `+` of the value table
pub fn e_plus_un<I, F>(a: Val<I, F>) -> Val<I, F>
where
    I: DataType + PrimInt + Signed,
    F: DataType + Float,
    <I as FromStr>::Err: Debug,
    <F as FromStr>::Err: Debug,
{
    call1::<Val<I, F>, _>(|x| x, a)
}
/// binary entry `-` of the value table
pub fn e_minus_bin<I, F>(a: Val<I, F>, b: Val<I, F>) -> Val<I, F>
where
    I: DataType + PrimInt + Signed,
    F: DataType + Float,
    <I as FromStr>::Err: Debug,
    <F as FromStr>::Err: Debug,
{
    call2::<Val<I, F>, _>(v_sub, a, b)
}
/// unary entry `-` of the value table
pub fn e_minus_un<I, F>(a: Val<I, F>) -> Val<I, F>
where
    I: DataType + PrimInt + Signed,
    F: DataType + Float,
    <I as FromStr>::Err: Debug,
    <F as FromStr>::Err: Debug,
{
    call1::<Val<I, F>, _>(v_minus, a)
}
/// binary entry `cross` of the value table
pub fn e_cross_bin<I, F>(a: Val<I, F>, b: Val<I, F>) -> Val<I, F>
where
    I: DataType + PrimInt + Signed,
    F: DataType + Float,
    <I as FromStr>::Err: Debug,
    <F as FromStr>::Err: Debug,
{
    call2::<Val<I, F>, _>(v_cross, a, b)
}
/// binary entry `dot` of the value table
pub fn e_dot_bin<I, F>(a: Val<I, F>, b: Val<I, F>) -> Val<I, F>
where
    I: DataType + PrimInt + Signed,
    F: DataType + Float,
    <I as FromStr>::Err: Debug,
    <F as FromStr>::Err: Debug,
{
    call2::<Val<I, F>, _>(v_dot, a, b)
}
/// binary entry `*` of the value table
pub fn e_star_bin<I, F>(a: Val<I, F>, b: Val<I, F>) -> Val<I, F>
where
    I: DataType + PrimInt + Signed,
    F: DataType + Float,
    <I as FromStr>::Err: Debug,
    <F as FromStr>::Err: Debug,
{
    call2::<Val<I, F>, _>(v_mul, a, b)
}
/// binary entry `/` of the value table
pub fn e_slash_bin<I, F>(a: Val<I, F>, b: Val<I, F>) -> Val<I, F>
where
    I: DataType + PrimInt + Signed,
    F: DataType + Float,
    <I as FromStr>::Err: Debug,
    <F as FromStr>::Err: Debug,
{
    call2::<Val<I, F>, _>(|a, b| match b {
                        Val::Int(x) if x == I::zero() => {
                            Val::Error(ExError::new("int division by zero"))
                        }
                        _ => v_div(a, b),
                    }, a, b)
}
/// binary entry `atan2` of the value table
pub fn e_atan2_bin<I, F>(a: Val<I, F>, b: Val<I, F>) -> Val<I, F>
where
    I: DataType + PrimInt + Signed,
    F: DataType + Float,
    <I as FromStr>::Err: Debug,
    <F as FromStr>::Err: Debug,
{
    call2::<Val<I, F>, _>(v_atan2, a, b)
}
/// binary entry `%` of the value table
pub fn e_percent_bin<I, F>(a: Val<I, F>, b: Val<I, F>) -> Val<I, F>
where
    I: DataType + PrimInt + Signed,
    F: DataType + Float,
    <I as FromStr>::Err: Debug,
    <F as FromStr>::Err: Debug,
{
    call2::<Val<I, F>, _>(v_rem, a, b)
}
/// binary entry `|` of the value table
pub fn e_pipe_bin<I, F>(a: Val<I, F>, b: Val<I, F>) -> Val<I, F>
where
    I: DataType + PrimInt + Signed,
    F: DataType + Float,
    <I as FromStr>::Err: Debug,
    <F as FromStr>::Err: Debug,
{
    call2::<Val<I, F>, _>(v_bitwise_or, a, b)
}
/// binary entry `&` of the value table
pub fn e_amp_bin<I, F>(a: Val<I, F>, b: Val<I, F>) -> Val<I, F>
where
    I: DataType + PrimInt + Signed,
    F: DataType + Float,
    <I as FromStr>::Err: Debug,
    <F as FromStr>::Err: Debug,
{
    call2::<Val<I, F>, _>(v_bitwise_and, a, b)
}
/// binary entry `XOR` of the value table
pub fn e_XOR_bin<I, F>(a: Val<I, F>, b: Val<I, F>) -> Val<I, F>
where
    I: DataType + PrimInt + Signed,
    F: DataType + Float,
    <I as FromStr>::Err: Debug,
    <F as FromStr>::Err: Debug,
{
    call2::<Val<I, F>, _>(v_bitwise_xor, a, b)
}
/// binary entry `>>` of the value table
pub fn e_gt_gt_bin<I, F>(a: Val<I, F>, b: Val<I, F>) -> Val<I, F>
where
    I: DataType + PrimInt + Signed,
    F: DataType + Float,
    <I as FromStr>::Err: Debug,
    <F as FromStr>::Err: Debug,
{
    call2::<Val<I, F>, _>(v_right_shift, a, b)
}
/// binary entry `<<` of the value table
pub fn e_lt_lt_bin<I, F>(a: Val<I, F>, b: Val<I, F>) -> Val<I, F>
where
    I: DataType + PrimInt + Signed,
    F: DataType + Float,
    <I as FromStr>::Err: Debug,
    <F as FromStr>::Err: Debug,
{
    call2::<Val<I, F>, _>(v_left_shift, a, b)
}
/// binary entry `&&` of the value table
pub fn e_amp_amp_bin<I, F>(a: Val<I, F>, b: Val<I, F>) -> Val<I, F>
where
    I: DataType + PrimInt + Signed,
    F: DataType + Float,
    <I as FromStr>::Err: Debug,
    <F as FromStr>::Err: Debug,
{
    call2::<Val<I, F>, _>(v_and, a, b)
}
/// binary entry `||` of the value table
pub fn e_pipe_pipe_bin<I, F>(a: Val<I, F>, b: Val<I, F>) -> Val<I, F>
where
    I: DataType + PrimInt + Signed,
    F: DataType + Float,
    <I as FromStr>::Err: Debug,
    <F as FromStr>::Err: Debug,
{
    call2::<Val<I, F>, _>(v_or, a, b)
}
/// binary entry `==` of the value table
pub fn e_eq_eq_bin<I, F>(a: Val<I, F>, b: Val<I, F>) -> Val<I, F>
where
    I: DataType + PrimInt + Signed,
    F: DataType + Float,
    <I as FromStr>::Err: Debug,
    <F as FromStr>::Err: Debug,
{
    call2::<Val<I, F>, _>(|a, b| Val::Bool(a == b), a, b)
}
/// binary entry `>=` of the value table
pub fn e_gt_eq_bin<I, F>(a: Val<I, F>, b: Val<I, F>) -> Val<I, F>
where
    I: DataType + PrimInt + Signed,
    F: DataType + Float,
    <I as FromStr>::Err: Debug,
    <F as FromStr>::Err: Debug,
{
    call2::<Val<I, F>, _>(|a, b| Val::Bool(a >= b), a, b)
}
/// binary entry `>` of the value table
pub fn e_gt_bin<I, F>(a: Val<I, F>, b: Val<I, F>) -> Val<I, F>
where
    I: DataType + PrimInt + Signed,
    F: DataType + Float,
    <I as FromStr>::Err: Debug,
    <F as FromStr>::Err: Debug,
{
    call2::<Val<I, F>, _>(|a, b| Val::Bool(a > b), a, b)
}
/// binary entry `<=` of the value table
pub fn e_lt_eq_bin<I, F>(a: Val<I, F>, b: Val<I, F>) -> Val<I, F>
where
    I: DataType + PrimInt + Signed,
    F: DataType + Float,
    <I as FromStr>::Err: Debug,
    <F as FromStr>::Err: Debug,
{
    call2::<Val<I, F>, _>(|a, b| Val::Bool(a <= b), a, b)
}
/// binary entry `<` of the value table
pub fn e_lt_bin<I, F>(a: Val<I, F>, b: Val<I, F>) -> Val<I, F>
where
    I: DataType + PrimInt + Signed,
    F: DataType + Float,
    <I as FromStr>::Err: Debug,
    <F as FromStr>::Err: Debug,
{
    call2::<Val<I, F>, _>(|a, b| Val::Bool(a < b), a, b)
}
/// binary entry `!=` of the value table
pub fn e_bang_eq_bin<I, F>(a: Val<I, F>, b: Val<I, F>) -> Val<I, F>
where
    I: DataType + PrimInt + Signed,
    F: DataType + Float,
    <I as FromStr>::Err: Debug,
    <F as FromStr>::Err: Debug,
{
    call2::<Val<I, F>, _>(|a, b| Val::Bool(a != b), a, b)
}
/// binary entry `if` of the value table
pub fn e_if_bin<I, F>(a: Val<I, F>, b: Val<I, F>) -> Val<I, F>
where
    I: DataType + PrimInt + Signed,
    F: DataType + Float,
    <I as FromStr>::Err: Debug,
    <F as FromStr>::Err: Debug,
{
    call2::<Val<I, F>, _>(|v, cond| {
                        let condition = match cond.to_bool() {
                            Ok(b) => b,
                            Err(e) => return Val::Error(e),
                        };
                        if condition {
                            v
                        } else {
                            Val::None
                        }
                    }, a, b)
}
/// binary entry `else` of the value table
pub fn e_else_bin<I, F>(a: Val<I, F>, b: Val<I, F>) -> Val<I, F>
where
    I: DataType + PrimInt + Signed,
    F: DataType + Float,
    <I as FromStr>::Err: Debug,
    <F as FromStr>::Err: Debug,
{
    call2::<Val<I, F>, _>(|res_of_if, v| match res_of_if {
                        Val::None => v,
                        _ => res_of_if,
                    }, a, b)
}
/// binary entry `min` of the value table
pub fn e_min_bin<I, F>(a: Val<I, F>, b: Val<I, F>) -> Val<I, F>
where
    I: DataType + PrimInt + Signed,
    F: DataType + Float,
    <I as FromStr>::Err: Debug,
    <F as FromStr>::Err: Debug,
{
    call2::<Val<I, F>, _>(|x, y| v_min(x, y), a, b)
}
/// binary entry `max` of the value table
pub fn e_max_bin<I, F>(a: Val<I, F>, b: Val<I, F>) -> Val<I, F>
where
    I: DataType + PrimInt + Signed,
    F: DataType + Float,
    <I as FromStr>::Err: Debug,
    <F as FromStr>::Err: Debug,
{
    call2::<Val<I, F>, _>(|x, y| v_max(x, y), a, b)
}
/// binary entry `.` of the value table
pub fn e_period_bin<I, F>(a: Val<I, F>, b: Val<I, F>) -> Val<I, F>
where
    I: DataType + PrimInt + Signed,
    F: DataType + Float,
    <I as FromStr>::Err: Debug,
    <F as FromStr>::Err: Debug,
{
    call2::<Val<I, F>, _>(|x, i| v_component(x, i), a, b)
}
/// unary entry `signum` of the value table
pub fn e_signum_un<I, F>(a: Val<I, F>) -> Val<I, F>
where
    I: DataType + PrimInt + Signed,
    F: DataType + Float,
    <I as FromStr>::Err: Debug,
    <F as FromStr>::Err: Debug,
{
    call1::<Val<I, F>, _>(v_signum, a)
}
/// unary entry `abs` of the value table
pub fn e_abs_un<I, F>(a: Val<I, F>) -> Val<I, F>
where
    I: DataType + PrimInt + Signed,
    F: DataType + Float,
    <I as FromStr>::Err: Debug,
    <F as FromStr>::Err: Debug,
{
    call1::<Val<I, F>, _>(v_abs, a)
}
/// unary entry `sin` of the value table
pub fn e_sin_un<I, F>(a: Val<I, F>) -> Val<I, F>
where
    I: DataType + PrimInt + Signed,
    F: DataType + Float,
    <I as FromStr>::Err: Debug,
    <F as FromStr>::Err: Debug,
{
    call1::<Val<I, F>, _>(v_sin, a)
}
/// unary entry `cos` of the value table
pub fn e_cos_un<I, F>(a: Val<I, F>) -> Val<I, F>
where
    I: DataType + PrimInt + Signed,
    F: DataType + Float,
    <I as FromStr>::Err: Debug,
    <F as FromStr>::Err: Debug,
{
    call1::<Val<I, F>, _>(v_cos, a)
}
/// unary entry `tan` of the value table
pub fn e_tan_un<I, F>(a: Val<I, F>) -> Val<I, F>
where
    I: DataType + PrimInt + Signed,
    F: DataType + Float,
    <I as FromStr>::Err: Debug,
    <F as FromStr>::Err: Debug,
{
    call1::<Val<I, F>, _>(v_tan, a)
}
/// unary entry `asin` of the value table
pub fn e_asin_un<I, F>(a: Val<I, F>) -> Val<I, F>
where
    I: DataType + PrimInt + Signed,
    F: DataType + Float,
    <I as FromStr>::Err: Debug,
    <F as FromStr>::Err: Debug,
{
    call1::<Val<I, F>, _>(v_asin, a)
}
/// unary entry `acos` of the value table
pub fn e_acos_un<I, F>(a: Val<I, F>) -> Val<I, F>
where
    I: DataType + PrimInt + Signed,
    F: DataType + Float,
    <I as FromStr>::Err: Debug,
    <F as FromStr>::Err: Debug,
{
    call1::<Val<I, F>, _>(v_acos, a)
}
/// unary entry `atan` of the value table
pub fn e_atan_un<I, F>(a: Val<I, F>) -> Val<I, F>
where
    I: DataType + PrimInt + Signed,
    F: DataType + Float,
    <I as FromStr>::Err: Debug,
    <F as FromStr>::Err: Debug,
{
    call1::<Val<I, F>, _>(v_atan, a)
}
/// unary entry `sinh` of the value table
pub fn e_sinh_un<I, F>(a: Val<I, F>) -> Val<I, F>
where
    I: DataType + PrimInt + Signed,
    F: DataType + Float,
    <I as FromStr>::Err: Debug,
    <F as FromStr>::Err: Debug,
{
    call1::<Val<I, F>, _>(v_sinh, a)
}
/// unary entry `cosh` of the value table
pub fn e_cosh_un<I, F>(a: Val<I, F>) -> Val<I, F>
where
    I: DataType + PrimInt + Signed,
    F: DataType + Float,
    <I as FromStr>::Err: Debug,
    <F as FromStr>::Err: Debug,
{
    call1::<Val<I, F>, _>(v_cosh, a)
}
/// unary entry `tanh` of the value table
pub fn e_tanh_un<I, F>(a: Val<I, F>) -> Val<I, F>
where
    I: DataType + PrimInt + Signed,
    F: DataType + Float,
    <I as FromStr>::Err: Debug,
    <F as FromStr>::Err: Debug,
{
    call1::<Val<I, F>, _>(v_tanh, a)
}
/// unary entry `asinh` of the value table
pub fn e_asinh_un<I, F>(a: Val<I, F>) -> Val<I, F>
where
    I: DataType + PrimInt + Signed,
    F: DataType + Float,
    <I as FromStr>::Err: Debug,
    <F as FromStr>::Err: Debug,
{
    call1::<Val<I, F>, _>(v_asinh, a)
}
/// unary entry `acosh` of the value table
pub fn e_acosh_un<I, F>(a: Val<I, F>) -> Val<I, F>
where
    I: DataType + PrimInt + Signed,
    F: DataType + Float,
    <I as FromStr>::Err: Debug,
    <F as FromStr>::Err: Debug,
{
    call1::<Val<I, F>, _>(v_acosh, a)
}
/// unary entry `atanh` of the value table
pub fn e_atanh_un<I, F>(a: Val<I, F>) -> Val<I, F>
where
    I: DataType + PrimInt + Signed,
    F: DataType + Float,
    <I as FromStr>::Err: Debug,
    <F as FromStr>::Err: Debug,
{
    call1::<Val<I, F>, _>(v_atanh, a)
}
/// unary entry `floor` of the value table
pub fn e_floor_un<I, F>(a: Val<I, F>) -> Val<I, F>
where
    I: DataType + PrimInt + Signed,
    F: DataType + Float,
    <I as FromStr>::Err: Debug,
    <F as FromStr>::Err: Debug,
{
    call1::<Val<I, F>, _>(v_floor, a)
}
/// unary entry `ceil` of the value table
pub fn e_ceil_un<I, F>(a: Val<I, F>) -> Val<I, F>
where
    I: DataType + PrimInt + Signed,
    F: DataType + Float,
    <I as FromStr>::Err: Debug,
    <F as FromStr>::Err: Debug,
{
    call1::<Val<I, F>, _>(v_ceil, a)
}
/// unary entry `trunc` of the value table
pub fn e_trunc_un<I, F>(a: Val<I, F>) -> Val<I, F>
where
    I: DataType + PrimInt + Signed,
    F: DataType + Float,
    <I as FromStr>::Err: Debug,
    <F as FromStr>::Err: Debug,
{
    call1::<Val<I, F>, _>(v_trunc, a)
}
/// unary entry `fract` of the value table
pub fn e_fract_un<I, F>(a: Val<I, F>) -> Val<I, F>
where
    I: DataType + PrimInt + Signed,
    F: DataType + Float,
    <I as FromStr>::Err: Debug,
    <F as FromStr>::Err: Debug,
{
    call1::<Val<I, F>, _>(v_fract, a)
}
/// unary entry `exp` of the value table
pub fn e_exp_un<I, F>(a: Val<I, F>) -> Val<I, F>
where
    I: DataType + PrimInt + Signed,
    F: DataType + Float,
    <I as FromStr>::Err: Debug,
    <F as FromStr>::Err: Debug,
{
    call1::<Val<I, F>, _>(v_exp, a)
}
/// unary entry `sqrt` of the value table
pub fn e_sqrt_un<I, F>(a: Val<I, F>) -> Val<I, F>
where
    I: DataType + PrimInt + Signed,
    F: DataType + Float,
    <I as FromStr>::Err: Debug,
    <F as FromStr>::Err: Debug,
{
    call1::<Val<I, F>, _>(v_sqrt, a)
}
/// unary entry `cbrt` of the value table
pub fn e_cbrt_un<I, F>(a: Val<I, F>) -> Val<I, F>
where
    I: DataType + PrimInt + Signed,
    F: DataType + Float,
    <I as FromStr>::Err: Debug,
    <F as FromStr>::Err: Debug,
{
    call1::<Val<I, F>, _>(v_cbrt, a)
}
/// unary entry `round` of the value table
pub fn e_round_un<I, F>(a: Val<I, F>) -> Val<I, F>
where
    I: DataType + PrimInt + Signed,
    F: DataType + Float,
    <I as FromStr>::Err: Debug,
    <F as FromStr>::Err: Debug,
{
    call1::<Val<I, F>, _>(v_round, a)
}
/// unary entry `ln` of the value table
pub fn e_ln_un<I, F>(a: Val<I, F>) -> Val<I, F>
where
    I: DataType + PrimInt + Signed,
    F: DataType + Float,
    <I as FromStr>::Err: Debug,
    <F as FromStr>::Err: Debug,
{
    call1::<Val<I, F>, _>(v_ln, a)
}
/// unary entry `log10` of the value table
pub fn e_log10_un<I, F>(a: Val<I, F>) -> Val<I, F>
where
    I: DataType + PrimInt + Signed,
    F: DataType + Float,
    <I as FromStr>::Err: Debug,
    <F as FromStr>::Err: Debug,
{
    call1::<Val<I, F>, _>(v_log10, a)
}
/// unary entry `log2` of the value table
pub fn e_log2_un<I, F>(a: Val<I, F>) -> Val<I, F>
where
    I: DataType + PrimInt + Signed,
    F: DataType + Float,
    <I as FromStr>::Err: Debug,
    <F as FromStr>::Err: Debug,
{
    call1::<Val<I, F>, _>(v_log2, a)
}
/// unary entry `log` of the value table
pub fn e_log_un<I, F>(a: Val<I, F>) -> Val<I, F>
where
    I: DataType + PrimInt + Signed,
    F: DataType + Float,
    <I as FromStr>::Err: Debug,
    <F as FromStr>::Err: Debug,
{
    call1::<Val<I, F>, _>(v_ln, a)
}
/// unary entry `swap_bytes` of the value table
pub fn e_swap_bytes_un<I, F>(a: Val<I, F>) -> Val<I, F>
where
    I: DataType + PrimInt + Signed,
    F: DataType + Float,
    <I as FromStr>::Err: Debug,
    <F as FromStr>::Err: Debug,
{
    call1::<Val<I, F>, _>(v_swap_bytes, a)
}
/// unary entry `to_le` of the value table
pub fn e_to_le_un<I, F>(a: Val<I, F>) -> Val<I, F>
where
    I: DataType + PrimInt + Signed,
    F: DataType + Float,
    <I as FromStr>::Err: Debug,
    <F as FromStr>::Err: Debug,
{
    call1::<Val<I, F>, _>(v_to_le, a)
}
/// unary entry `to_be` of the value table
pub fn e_to_be_un<I, F>(a: Val<I, F>) -> Val<I, F>
where
    I: DataType + PrimInt + Signed,
    F: DataType + Float,
    <I as FromStr>::Err: Debug,
    <F as FromStr>::Err: Debug,
{
    call1::<Val<I, F>, _>(v_to_be, a)
}
/// unary entry `fact` of the value table
pub fn e_fact_un<I, F>(a: Val<I, F>) -> Val<I, F>
where
    I: DataType + PrimInt + Signed,
    F: DataType + Float,
    <I as FromStr>::Err: Debug,
    <F as FromStr>::Err: Debug,
{
    call1::<Val<I, F>, _>(v_fact, a)
}
/// unary entry `to_int` of the value table
pub fn e_to_int_un<I, F>(a: Val<I, F>) -> Val<I, F>
where
    I: DataType + PrimInt + Signed,
    F: DataType + Float,
    <I as FromStr>::Err: Debug,
    <F as FromStr>::Err: Debug,
{
    call1::<Val<I, F>, _>(v_cast_to_int, a)
}
/// unary entry `to_float` of the value table
pub fn e_to_float_un<I, F>(a: Val<I, F>) -> Val<I, F>
where
    I: DataType + PrimInt + Signed,
    F: DataType + Float,
    <I as FromStr>::Err: Debug,
    <F as FromStr>::Err: Debug,
{
    call1::<Val<I, F>, _>(v_cast_to_float, a)
}
/// unary entry `length` of the value table
pub fn e_length_un<I, F>(a: Val<I, F>) -> Val<I, F>
where
    I: DataType + PrimInt + Signed,
    F: DataType + Float,
    <I as FromStr>::Err: Debug,
    <F as FromStr>::Err: Debug,
{
    call1::<Val<I, F>, _>(v_length, a)
}
/// constant `PI` of the value table
pub fn e_PI_const<I, F>() -> Val<I, F>
where
    I: DataType + PrimInt + Signed,
    F: DataType + Float,
    <I as FromStr>::Err: Debug,
    <F as FromStr>::Err: Debug,
{
    Val::Float(F::from(std::f64::consts::PI).unwrap())
}
/// constant `π` of the value table
pub fn e_u03c0_const<I, F>() -> Val<I, F>
where
    I: DataType + PrimInt + Signed,
    F: DataType + Float,
    <I as FromStr>::Err: Debug,
    <F as FromStr>::Err: Debug,
{
    Val::Float(F::from(std::f64::consts::PI).unwrap())
}
/// constant `E` of the value table
pub fn e_E_const<I, F>() -> Val<I, F>
where
    I: DataType + PrimInt + Signed,
    F: DataType + Float,
    <I as FromStr>::Err: Debug,
    <F as FromStr>::Err: Debug,
{
    Val::Float(F::from(std::f64::consts::E).unwrap())
}
/// constant `TAU` of the value table
pub fn e_TAU_const<I, F>() -> Val<I, F>
where
    I: DataType + PrimInt + Signed,
    F: DataType + Float,
    <I as FromStr>::Err: Debug,
    <F as FromStr>::Err: Debug,
{
    Val::Float(F::from(std::f64::consts::TAU).unwrap())
}
/// constant `τ` of the value table
pub fn e_u03c4_const<I, F>() -> Val<I, F>
where
    I: DataType + PrimInt + Signed,
    F: DataType + Float,
    <I as FromStr>::Err: Debug,
    <F as FromStr>::Err: Debug,
{
    Val::Float(F::from(std::f64::consts::TAU).unwrap())
}
