//! Input source shared by the Kani harnesses and the native replay driver.
//! Under Kani every draw is `kani::any()`, natively it pops bytes from a queue (little endian,
//! in draw order — the layout `--concrete-playback=print` reports).  The same harness body is
//! therefore both the proof obligation and the replay program.

pub trait Src {
    fn bytes<const N: usize>(&mut self) -> [u8; N];
    fn assume(&mut self, c: bool);
    fn cover(&mut self, c: bool, name: &'static str);

    fn u8(&mut self) -> u8;
    fn bool(&mut self) -> bool;
    fn u16(&mut self) -> u16;
    fn i32(&mut self) -> i32;
    fn u32(&mut self) -> u32;
    fn i64(&mut self) -> i64;
    fn u64(&mut self) -> u64;
    fn usize(&mut self) -> usize;
    fn f64(&mut self) -> f64;
    fn f32(&mut self) -> f32;

    /// a value in 0..n
    fn choice(&mut self, n: u8) -> u8 {
        let c = self.u8();
        self.assume(c < n);
        c
    }
    /// a value in lo..=hi
    fn range_usize(&mut self, lo: usize, hi: usize) -> usize {
        let c = self.usize();
        self.assume(c >= lo && c <= hi);
        c
    }
}

#[cfg(kani)]
pub struct K;
#[cfg(kani)]
impl Src for K {
    fn bytes<const N: usize>(&mut self) -> [u8; N] { kani::any() }
    fn assume(&mut self, c: bool) { kani::assume(c) }
    fn cover(&mut self, _c: bool, _name: &'static str) {}
    fn u8(&mut self) -> u8 { kani::any() }
    fn bool(&mut self) -> bool { kani::any() }
    fn u16(&mut self) -> u16 { kani::any() }
    fn i32(&mut self) -> i32 { kani::any() }
    fn u32(&mut self) -> u32 { kani::any() }
    fn i64(&mut self) -> i64 { kani::any() }
    fn u64(&mut self) -> u64 { kani::any() }
    fn usize(&mut self) -> usize { kani::any() }
    fn f64(&mut self) -> f64 { kani::any() }
    fn f32(&mut self) -> f32 { kani::any() }
}

/// payload used to signal "input violates the harness pre-condition" natively
pub const REJECT: &str = "SRC-REJECT: input does not satisfy the harness pre-condition";

pub struct Q {
    pub bytes: std::collections::VecDeque<u8>,
    pub exhausted: bool,
    pub covered: Vec<&'static str>,
    /// palette mode: every typed draw consumes ONE byte and returns that type's boundary value with
    /// this index (used by the native counterexample search when a verifier counterexample over
    /// uninterpreted primitives does not reproduce)
    pub palette: bool,
    /// exhaustive mode (`exmex_replay --exhaust`): every draw is a digit of an odometer over ALL draw sequences.
    /// `choice(n)` / `bool` / `range_usize` range over their whole domain, typed payload draws over the first
    /// `payload_radix` palette values.  A run in this mode equals the palette-mode run on the digit string.
    pub en: Option<Enumerator>,
}
#[derive(Default)]
pub struct Enumerator {
    pub digits: Vec<u8>,
    pub radix: Vec<u8>,
    pub pos: usize,
    pub payload_radix: u8,
    /// the byte string on which a palette-mode replay makes exactly the draws of the current run
    pub replay: Vec<u8>,
}
impl Enumerator {
    fn next(&mut self, n: usize) -> usize {
        let n = n.clamp(1, 255) as u8;
        let d = if self.pos < self.digits.len() {
            self.radix[self.pos] = n;
            self.digits[self.pos] % n
        } else {
            self.digits.push(0);
            self.radix.push(n);
            0
        };
        self.pos += 1;
        self.replay.push(d);
        d as usize
    }
    /// advance to the next draw sequence (depth-first; a run that stopped early — rejected pre-condition —
    /// prunes every continuation of its prefix).
    pub fn advance(&mut self) -> bool {
        self.digits.truncate(self.pos);
        self.radix.truncate(self.pos);
        self.pos = 0;
        self.replay.clear();
        while let Some(d) = self.digits.pop() {
            let r = self.radix.pop().unwrap();
            if (d as u16) + 1 < r as u16 {
                self.digits.push(d + 1);
                self.radix.push(r);
                return true;
            }
        }
        false
    }
}
pub const PAL_F64: [f64; 28] = [0.0, -0.0, 1.0, -1.0, 0.5, -0.5, 1.5, -1.5, 2.5, -2.5, 2.0, 3.0, 1e10, -1e10, 2147483648.0, -2147483649.0,
    5e-324, f64::MAX, f64::MIN, f64::INFINITY, f64::NEG_INFINITY, f64::NAN, 0.49999999999999994, 1e-7, 9007199254740993.0, std::f64::consts::PI, 9223372036854775808.0, 4503599627370497.0];
pub const PAL_F32: [f32; 24] = [0.0, -0.0, 1.0, -1.0, 0.5, -0.5, 1.5, -1.5, 2.5, -2.5, 2.0, 3.0, 1e10, -1e10, 2147483648.0, -2147483904.0,
    1e-45, f32::MAX, f32::MIN, f32::INFINITY, f32::NEG_INFINITY, f32::NAN, 0.49999997, 8388609.0];
pub const PAL_I32: [i32; 22] = [0, 1, -1, 2, -2, 3, 7, 12, 13, 31, 32, 33, 64, i32::MIN, i32::MIN + 1, i32::MAX, i32::MAX - 1, 46340, 46341, -46341, 65536, -65536];
pub const PAL_I64: [i64; 18] = [0, 1, -1, 2, -2, 3, 20, 21, 63, 64, i64::MIN, i64::MIN + 1, i64::MAX, i64::MAX - 1, 2147483648, -2147483649, 3037000499, 3037000500];
pub const PAL_U64: [u64; 12] = [0, 1, 2, 3, 62, 63, 64, 65, 127, 128, u64::MAX, u64::MAX - 1];
impl Q {
    pub fn new(b: &[u8]) -> Q {
        Q { bytes: b.iter().copied().collect(), exhausted: false, covered: vec![], palette: false, en: None }
    }
    pub fn new_palette(b: &[u8]) -> Q {
        Q { bytes: b.iter().copied().collect(), exhausted: false, covered: vec![], palette: true, en: None }
    }
    pub fn new_enumerating(e: Enumerator) -> Q {
        Q { bytes: Default::default(), exhausted: false, covered: vec![], palette: true, en: Some(e) }
    }
    fn idx(&mut self, n: usize) -> usize {
        if let Some(e) = &mut self.en { let r = (e.payload_radix as usize).min(n); return e.next(r); }
        self.take::<1>()[0] as usize % n
    }
    fn byte(&mut self, n: usize) -> u8 {
        if let Some(e) = &mut self.en { return e.next(n) as u8; }
        self.take::<1>()[0]
    }
    fn take<const N: usize>(&mut self) -> [u8; N] {
        let mut a = [0u8; N];
        if let Some(e) = &mut self.en { e.replay.extend_from_slice(&a); return a; }
        for x in a.iter_mut() {
            match self.bytes.pop_front() {
                Some(b) => *x = b,
                None => self.exhausted = true,
            }
        }
        a
    }
}
impl Src for Q {
    fn bytes<const N: usize>(&mut self) -> [u8; N] { self.take::<N>() }
    fn assume(&mut self, c: bool) {
        if !c {
            std::panic::panic_any(REJECT);
        }
    }
    fn cover(&mut self, c: bool, name: &'static str) {
        if c {
            self.covered.push(name);
        }
    }
    // natively a choice never rejects: the byte is reduced modulo n (identity on Kani's counterexamples,
    // where the drawn value already satisfies the assumption)
    fn choice(&mut self, n: u8) -> u8 { self.byte(n as usize) % n }
    fn range_usize(&mut self, lo: usize, hi: usize) -> usize {
        if let Some(e) = &mut self.en {
            // palette-mode replay reads the value itself from one byte
            let v = lo + e.next(hi - lo + 1);
            *e.replay.last_mut().unwrap() = v.min(255) as u8;
            return v;
        }
        let c = if self.palette { self.take::<1>()[0] as usize } else { usize::from_le_bytes(self.take()) };
        if c >= lo && c <= hi { c } else { lo + c % (hi - lo + 1) }
    }
    fn u8(&mut self) -> u8 { self.byte(255) }
    fn bool(&mut self) -> bool { self.byte(2) & 1 == 1 }
    fn u16(&mut self) -> u16 { u16::from_le_bytes(self.take()) }
    fn i32(&mut self) -> i32 { if self.palette { PAL_I32[self.idx(PAL_I32.len())] } else { i32::from_le_bytes(self.take()) } }
    fn u32(&mut self) -> u32 { if self.palette { PAL_U64[self.idx(PAL_U64.len())] as u32 } else { u32::from_le_bytes(self.take()) } }
    fn i64(&mut self) -> i64 { if self.palette { PAL_I64[self.idx(PAL_I64.len())] } else { i64::from_le_bytes(self.take()) } }
    fn u64(&mut self) -> u64 { if self.palette { PAL_U64[self.idx(PAL_U64.len())] } else { u64::from_le_bytes(self.take()) } }
    fn usize(&mut self) -> usize { if self.palette { PAL_U64[self.idx(PAL_U64.len())] as usize } else { usize::from_le_bytes(self.take()) } }
    fn f64(&mut self) -> f64 { if self.palette { PAL_F64[self.idx(PAL_F64.len())] } else { f64::from_le_bytes(self.take()) } }
    fn f32(&mut self) -> f32 { if self.palette { PAL_F32[self.idx(PAL_F32.len())] } else { f32::from_le_bytes(self.take()) } }
}

/// `std::fmt::format` replacement used by every Kani harness (`-Z stubbing`): error-message
/// text is not verified, only that an error value is produced.
pub fn stub_format(_args: std::fmt::Arguments<'_>) -> String {
    String::new()
}

/// Declares a harness: a generic body usable by Kani and by the native replay driver.
/// `harness!(name, unwind = N, |s| { body })`
#[macro_export]
macro_rules! harness {
    ($name:ident, unwind = $u:expr, |$s:ident| $body:block) => {
        pub fn $name<S: $crate::src::Src>($s: &mut S) $body
        #[cfg(kani)]
        mod $name {
            #[kani::proof]
            #[kani::stub(std::fmt::format, $crate::src::stub_format)]
            #[kani::unwind($u)]
            fn proof() {
                let mut k = $crate::src::K;
                super::$name(&mut k);
                kani::cover!(true, "end-reached");
            }
        }
    };
}

#[macro_export]
macro_rules! registry {
    ($module:literal, $($name:ident),* $(,)?) => {
        pub fn registry() -> Vec<(&'static str, $crate::NativeHarness)> {
            vec![$((concat!($module, "::", stringify!($name)), $name::<$crate::src::Q> as $crate::NativeHarness)),*]
        }
    };
}

/// reachability witness with its own source location (Kani merges cover properties per location)
#[macro_export]
macro_rules! cover {
    ($s:expr, $c:expr, $name:literal) => {{
        #[cfg(kani)]
        kani::cover!($c, $name);
        #[cfg(not(kani))]
        $crate::src::Src::cover($s, $c, $name);
    }};
}

/// harness with the float-primitive tag stubs of `u7` applied (value operators).  Float arithmetic
/// reached through the operator traits in generic code (`Add::add` .. `Neg::neg` on f64) is stubbed
/// as well: proving two float multiplier / divider circuits equal is out of reach of the SAT back
/// end, and the contract is "calls the primitive with the documented operands".
/// Optional extra stubs: `vharness!(name, unwind = N, extra = [{stub ; original path} ..], |s| {..})`.
#[macro_export]
macro_rules! vharness {
    ($name:ident, unwind = $u:expr, |$s:ident| $body:block) => {
        $crate::vharness!($name, unwind = $u, extra = [], |$s| $body);
    };
    ($name:ident, unwind = $u:expr, extra = [$({ $stub:path ; $($orig:tt)+ })*], |$s:ident| $body:block) => {
        pub fn $name<S: $crate::src::Src>($s: &mut S) $body
        #[cfg(kani)]
        mod $name {
            #[kani::proof]
            #[kani::stub(std::fmt::format, $crate::src::stub_format)]
            #[kani::stub(f64::sin, $crate::u7::s_sin)] #[kani::stub(f64::cos, $crate::u7::s_cos)] #[kani::stub(f64::tan, $crate::u7::s_tan)]
            #[kani::stub(f64::asin, $crate::u7::s_asin)] #[kani::stub(f64::acos, $crate::u7::s_acos)] #[kani::stub(f64::atan, $crate::u7::s_atan)]
            #[kani::stub(f64::sinh, $crate::u7::s_sinh)] #[kani::stub(f64::cosh, $crate::u7::s_cosh)] #[kani::stub(f64::tanh, $crate::u7::s_tanh)]
            #[kani::stub(f64::asinh, $crate::u7::s_asinh)] #[kani::stub(f64::acosh, $crate::u7::s_acosh)] #[kani::stub(f64::atanh, $crate::u7::s_atanh)]
            #[kani::stub(f64::exp, $crate::u7::s_exp)] #[kani::stub(f64::cbrt, $crate::u7::s_cbrt)] #[kani::stub(f64::ln, $crate::u7::s_ln)]
            #[kani::stub(f64::log2, $crate::u7::s_log2)] #[kani::stub(f64::log10, $crate::u7::s_log10)] #[kani::stub(f64::sqrt, $crate::u7::s_sqrt)]
            #[kani::stub(f64::powf, $crate::u7::s_powf)] #[kani::stub(f64::atan2, $crate::u7::s_atan2)] #[kani::stub(f64::powi, $crate::u7::s_powi)]
            #[kani::stub(<f64 as core::ops::Add<f64>>::add, $crate::u7::s_add)] #[kani::stub(<f64 as core::ops::Sub<f64>>::sub, $crate::u7::s_sub)]
            #[kani::stub(<f64 as core::ops::Mul<f64>>::mul, $crate::u7::s_mul)] #[kani::stub(<f64 as core::ops::Div<f64>>::div, $crate::u7::s_div)]
            #[kani::stub(<f64 as core::ops::Neg>::neg, $crate::u7::s_neg)]
            #[kani::stub(f32::sin, $crate::u7::f_sin)] #[kani::stub(f32::cos, $crate::u7::f_cos)] #[kani::stub(f32::tan, $crate::u7::f_tan)]
            #[kani::stub(f32::asin, $crate::u7::f_asin)] #[kani::stub(f32::acos, $crate::u7::f_acos)] #[kani::stub(f32::atan, $crate::u7::f_atan)]
            #[kani::stub(f32::sinh, $crate::u7::f_sinh)] #[kani::stub(f32::cosh, $crate::u7::f_cosh)] #[kani::stub(f32::tanh, $crate::u7::f_tanh)]
            #[kani::stub(f32::asinh, $crate::u7::f_asinh)] #[kani::stub(f32::acosh, $crate::u7::f_acosh)] #[kani::stub(f32::atanh, $crate::u7::f_atanh)]
            #[kani::stub(f32::exp, $crate::u7::f_exp)] #[kani::stub(f32::cbrt, $crate::u7::f_cbrt)] #[kani::stub(f32::ln, $crate::u7::f_ln)]
            #[kani::stub(f32::log2, $crate::u7::f_log2)] #[kani::stub(f32::log10, $crate::u7::f_log10)] #[kani::stub(f32::sqrt, $crate::u7::f_sqrt)]
            #[kani::stub(f32::powf, $crate::u7::f_powf)] #[kani::stub(f32::atan2, $crate::u7::f_atan2)] #[kani::stub(f32::powi, $crate::u7::f_powi)]
            $(#[kani::stub($($orig)+, $stub)])*
            #[kani::unwind($u)]
            fn proof() {
                let mut k = $crate::src::K;
                super::$name(&mut k);
                kani::cover!(true, "end-reached");
            }
        }
    };
}
