//! U1/U2 cross-checks on the *unextracted* code (property C14).
//!  * `intrinsics_spec`  — the three `assume_specification`s the Verus unit trusts, checked for
//!                         every `usize` against CBMC's bit-precise model (complete, loop-free).
//!  * `word_tracker`     — `impl NumberTracker for usize`, all words x all idx < 64 (complete).
//!  * `slice_tracker_*`  — `impl NumberTracker for [usize]`, 1..=N symbolic words (bounded by N).
//!  * `eval_binary_*`    — real `eval_binary`, every application order of N operators; operands
//!                         are intervals and every `apply` asserts liveness + adjacency.
use crate::src::Src;
use exmex::verif_hooks::*;

#[inline(always)]
fn vbit(w: usize, i: usize) -> bool {
    i < 64 && (w >> i) & 1 == 1
}

harness!(intrinsics_spec, unwind = 2, |s| {
    let x = s.usize();
    let n = s.u32();
    s.assume(n >= 1 && n <= 64);
    let i = s.usize();
    s.assume(i < 64);
    // rotate_right: bit i of the result is bit (i+n) mod 64 of the input
    let r = x.rotate_right(n);
    assert!(vbit(r, i) == vbit(x, (i + n as usize) % 64), "rotate_right spec");
    // leading_ones
    let lo = x.leading_ones() as usize;
    assert!(lo <= 64, "leading_ones <= 64");
    if i + lo > 63 { assert!(vbit(x, i), "leading_ones: counted bits are set"); }
    if lo < 64 { assert!(!vbit(x, 63 - lo), "leading_ones: next bit is clear"); }
    assert!((lo == 64) == (x == usize::MAX), "leading_ones == 64 iff MAX");
    // trailing_ones
    let to = x.trailing_ones() as usize;
    assert!(to <= 64, "trailing_ones <= 64");
    if i < to { assert!(vbit(x, i), "trailing_ones: counted bits are set"); }
    if to < 64 { assert!(!vbit(x, to), "trailing_ones: next bit is clear"); }
    assert!((to == 64) == (x == usize::MAX), "trailing_ones == 64 iff MAX");
    assert!(usize::BITS == 64, "usize is 64 bit");
});

harness!(word_tracker, unwind = 2, |s| {
    let mut w = s.usize();
    let idx = s.usize();
    s.assume(idx < 64);
    let k = s.usize();
    s.assume(k < 64);
    let r = w.get_previous(idx);
    if k <= idx && k + r > idx { assert!(vbit(w, k), "get_previous: skipped operands are ignored"); }
    if r <= idx { assert!(!vbit(w, idx - r), "get_previous: target operand is live"); }
    let q = w.get_next(idx);
    assert!(q >= 1, "get_next >= 1");
    if k > idx && k < idx + q { assert!(vbit(w, k), "get_next: skipped operands are ignored"); }
    if idx + q < 64 { assert!(!vbit(w, idx + q), "get_next: target operand is live"); }
    let before = w;
    w.ignore(idx);
    assert!(vbit(w, k) == (vbit(before, k) || k == idx), "ignore: exactly bit idx is added");
    assert!(w.max_len() == 64, "max_len == 64");
});

fn s_ign(ws: &[usize], i: usize) -> bool {
    vbit(ws[i / 64], i % 64)
}

fn slice_tracker_n<S: Src, const W: usize>(s: &mut S) {
    let mut ws = [0usize; W];
    for w in ws.iter_mut() {
        *w = s.usize();
    }
    let n = s.range_usize(1, W);
    let cap = 64 * n;
    let idx = s.usize();
    s.assume(idx < cap);
    let k = s.usize();
    s.assume(k < cap);
    let t: &mut [usize] = &mut ws[..n];
    assert!(t.max_len() == cap, "max_len == 64 * words");
    let r = t.get_previous(idx);
    if k <= idx && k + r > idx { assert!(s_ign(t, k), "get_previous: skipped operands are ignored"); }
    if r <= idx { assert!(!s_ign(t, idx - r), "get_previous: target operand is live"); } else { assert!(r == idx + 1, "get_previous: r <= idx + 1"); }
    let q = t.get_next(idx);
    assert!(q >= 1, "get_next >= 1");
    if k > idx && k < idx + q { assert!(s_ign(t, k), "get_next: skipped operands are ignored"); }
    if idx + q < cap { assert!(!s_ign(t, idx + q), "get_next: target operand is live"); }
    let was = s_ign(t, k);
    t.ignore(idx);
    assert!(s_ign(t, k) == (was || k == idx), "ignore: exactly bit idx is added");
    cover!(s, n == W, "all words used");
}

harness!(slice_tracker_3, unwind = 6, |s| { slice_tracker_n::<S, 3>(s) });
harness!(slice_tracker_4, unwind = 7, |s| { slice_tracker_n::<S, 4>(s) });

/// operand = interval of original operand positions; `live` is false for `Default` (moved-out)
#[derive(Clone, Default, PartialEq, Debug)]
pub struct Seg {
    lo: u16,
    hi: u16,
    live: bool,
}
pub struct SegOp {
    k: u16,
}
impl OperateBinary<Seg> for SegOp {
    fn apply(&self, a: Seg, b: Seg) -> Seg {
        assert!(a.live && b.live, "eval_binary: a consumed operand reached an operator");
        assert!(a.hi == self.k && b.lo == self.k + 1, "eval_binary: operands are not the adjacent live results");
        Seg { lo: a.lo, hi: b.hi, live: true }
    }
}

fn eval_binary_orders<S: Src, const N: usize, const M: usize>(s: &mut S, slice_words: usize) {
    // M == N + 1
    let mut order = [0usize; N];
    for i in 0..N {
        order[i] = s.usize();
        s.assume(order[i] < N);
        for j in 0..i {
            s.assume(order[i] != order[j]);
        }
    }
    let mut nums: [Seg; M] = core::array::from_fn(|i| Seg { lo: i as u16, hi: i as u16, live: true });
    let ops: [SegOp; N] = core::array::from_fn(|i| SegOp { k: i as u16 });
    let r = if slice_words == 0 {
        let mut tr: usize = 0;
        eval_binary(&mut nums, &ops, &order, &mut tr)
    } else {
        let mut tr = [0usize; 4];
        eval_binary(&mut nums, &ops, &order, &mut tr[..slice_words])
    };
    assert!(r == Seg { lo: 0, hi: N as u16, live: true }, "eval_binary: result is the fully reduced chain");
}

harness!(eval_binary_orders_4, unwind = 7, |s| { eval_binary_orders::<S, 4, 5>(s, 0) });
harness!(eval_binary_orders_6, unwind = 9, |s| { eval_binary_orders::<S, 6, 7>(s, 0) });
harness!(eval_binary_orders_4_slice, unwind = 7, |s| { eval_binary_orders::<S, 4, 5>(s, 2) });

fn seg_apply(a: Seg, b: Seg) -> Seg {
    assert!(a.live && b.live, "eval_numbers: a consumed operand reached an operator");
    assert!(a.hi + 1 == b.lo, "eval_numbers: operands are not the adjacent live results");
    Seg { lo: a.lo, hi: b.hi, live: true }
}

/// tracker selection (`eval_numbers`, reached through `eval_flatex_cloning`) across the 64/65
/// operand boundary: M literal operands, ascending or descending application order.
fn eval_numbers_boundary<S: Src, const M: usize>(s: &mut S) {
    use exmex::BinOp;
    let nodes: Vec<FlatNode<Seg>> = (0..M)
        .map(|i| FlatNode { kind: FlatNodeKind::Num(Seg { lo: i as u16, hi: i as u16, live: true }), unary_op: UnaryOp::new() })
        .collect();
    let ops: Vec<FlatOp<Seg>> = (0..M - 1)
        .map(|i| FlatOp { unary_op: UnaryOp::new(), bin_op: BinOpWithIdx { op: BinOp { apply: seg_apply, prio: 0, is_commutative: false }, idx: i } })
        .collect();
    let descending = s.bool();
    let order: Vec<usize> = (0..M - 1).map(|i| if descending { M - 2 - i } else { i }).collect();
    let r = eval_flatex_cloning(&[], &nodes, &ops, &order);
    match &r {
        Ok(v) => assert!(*v == Seg { lo: 0, hi: (M - 1) as u16, live: true }, "eval_numbers: result is the fully reduced chain"),
        Err(_) => assert!(false, "eval_numbers: returns Ok"),
    }
    core::mem::forget(r);
    core::mem::forget(nodes);
    core::mem::forget(ops);
}
harness!(eval_numbers_boundary_64, unwind = 70, |s| { eval_numbers_boundary::<S, 64>(s) });
harness!(eval_numbers_boundary_65, unwind = 70, |s| { eval_numbers_boundary::<S, 65>(s) });
harness!(eval_numbers_boundary_66, unwind = 70, |s| { eval_numbers_boundary::<S, 66>(s) });

/// native-only probe (never run under Kani: it goes through the parser): evaluates the deep form of
/// `x+x+..+x` with n operands, n drawn from the first input byte, across the 64/65/128/129 boundaries
pub fn deep_eval_boundary<S: Src>(s: &mut S) {
    use exmex::prelude::*;
    use exmex::DeepEx;
    let n = s.u8() as usize;
    s.assume(n >= 2);
    let text = vec!["x"; n].join("+");
    let e = DeepEx::<f64>::parse(&text).unwrap();
    let r = e.eval(&[1.0]).unwrap();
    assert!(r == n as f64, "deep evaluation of a chain of n operands");
}

/// native-only probe: flat -> deep conversion (`flatex_to_deepex`, its inlined tracker loop) of a chain of
/// n variables with a `*` at a byte-chosen position, then evaluation of the deep form
pub fn flat2deep_boundary<S: Src>(s: &mut S) {
    use exmex::prelude::*;
    let n = s.u8() as usize;
    let m = s.u8() as usize;
    s.assume(n >= 2);
    let mut text = String::from("x");
    for i in 1..n { text.push_str(if i == m % n && i > 0 { "*" } else { "+" }); text.push('x'); }
    let f = FlatEx::<f64>::parse(&text).unwrap();
    let expect = f.eval(&[1.0]).unwrap();
    let d = f.to_deepex().unwrap();
    assert!(d.eval(&[1.0]).unwrap() == expect, "flat -> deep conversion of a chain of n operands preserves the value");
}

/// native-only probe: long chains `x+x-x+x-..` of n operands (n = first two input bytes, little endian)
/// evaluated flat (mode 0), deep (mode 1) or flat -> deep (mode 2); sizes beyond the tracker's inline
/// capacity of 32 words (2048 operands) are reachable here and nowhere in the bounded Kani checks
pub fn chain_sizes<S: Src>(s: &mut S) {
    use exmex::prelude::*;
    use exmex::DeepEx;
    let n = s.u16() as usize;
    let mode = s.u8() % 3;
    s.assume(n >= 2);
    let mut text = String::from("x");
    let mut expect = 1.0f64;
    for i in 1..n {
        if i % 2 == 1 { text.push('+'); expect += 1.0; } else { text.push('-'); expect -= 1.0; }
        text.push('x');
    }
    let got = match mode {
        0 => FlatEx::<f64>::parse(&text).unwrap().eval(&[1.0]).unwrap(),
        1 => DeepEx::<f64>::parse(&text).unwrap().eval(&[1.0]).unwrap(),
        _ => FlatEx::<f64>::parse(&text).unwrap().to_deepex().unwrap().eval(&[1.0]).unwrap(),
    };
    assert!(got == expect, "a left-to-right chain of n operands reduces to the expected value");
}

registry!("u1", chain_sizes, flat2deep_boundary, deep_eval_boundary, eval_numbers_boundary_64, eval_numbers_boundary_65, eval_numbers_boundary_66, intrinsics_spec, word_tracker, slice_tracker_3, slice_tracker_4,
    eval_binary_orders_4, eval_binary_orders_6, eval_binary_orders_4_slice);
