//! U4 — unary composition (C01 c): `UnaryOp::apply`, `FlatOp::apply`, `append_after`,
//! `append_after_iter`, `remove_latest`.  The functions in the chain are tagging functions
//! `t_k(x) = 16 x + k`, so the result spells the application order; lengths 0..=4 are concrete
//! cases (symbolic fn pointers / lengths explode in CBMC), the argument is symbolic.
#[allow(unused_imports)]
use crate::src::Src;
use exmex::verif_hooks::*;
use exmex::BinOp;

fn t1(x: u64) -> u64 { x.wrapping_mul(16).wrapping_add(1) }
fn t2(x: u64) -> u64 { x.wrapping_mul(16).wrapping_add(2) }
fn t3(x: u64) -> u64 { x.wrapping_mul(16).wrapping_add(3) }
fn t4(x: u64) -> u64 { x.wrapping_mul(16).wrapping_add(4) }
fn pair(a: u64, b: u64) -> u64 { 256 * a + 16 * b + 9 }
const T: [fn(u64) -> u64; 4] = [t1, t2, t3, t4];

fn chain(n: usize) -> UnaryOp<u64> {
    // [f0, f1, ..] with f_k = t_{k+1}
    match n {
        0 => UnaryOp::new(),
        1 => UnaryOp::from_vec(smallvec::smallvec![UnaryFuncWithIdx { f: T[0], idx: 0 }]),
        2 => UnaryOp::from_vec(smallvec::smallvec![UnaryFuncWithIdx { f: T[0], idx: 0 }, UnaryFuncWithIdx { f: T[1], idx: 1 }]),
        3 => UnaryOp::from_vec(smallvec::smallvec![UnaryFuncWithIdx { f: T[0], idx: 0 }, UnaryFuncWithIdx { f: T[1], idx: 1 }, UnaryFuncWithIdx { f: T[2], idx: 2 }]),
        _ => UnaryOp::from_vec(smallvec::smallvec![UnaryFuncWithIdx { f: T[0], idx: 0 }, UnaryFuncWithIdx { f: T[1], idx: 1 }, UnaryFuncWithIdx { f: T[2], idx: 2 }, UnaryFuncWithIdx { f: T[3], idx: 3 }]),
    }
}
/// f0(f1(..f_{n-1}(x))) for the chain [t_{lo+1} .. t_{hi}]
fn expect(lo: usize, hi: usize, x: u64) -> u64 {
    let mut r = x;
    let mut k = hi;
    while k > lo { k -= 1; r = 16 * r + (k as u64 + 1); }
    r
}

harness!(unary_apply, unwind = 7, |s| {
    let x = s.u64(); s.assume(x < (1 << 40));
    let n = s.choice(5) as usize;
    let c = chain(n);
    assert!(c.len() == n, "C01 unary chain length");
    assert!(c.apply(x) == expect(0, n, x), "C01 unary operators compose right-to-left: [f0..fn-1].apply(x) = f0(f1(..fn-1(x)))");
    core::mem::forget(c);
});

harness!(flatop_apply, unwind = 7, |s| {
    let a = s.u64(); let b = s.u64(); s.assume(a < (1 << 20) && b < 16);
    let n = s.choice(4) as usize;
    let op = FlatOp { unary_op: chain(n), bin_op: BinOpWithIdx { op: BinOp { apply: pair as fn(u64, u64) -> u64, prio: 0, is_commutative: false }, idx: 0 } };
    assert!(op.apply(a, b) == expect(0, n, pair(a, b)), "C01 a unary chain on a binary operator runs after the binary operator on its result");
    assert!(op.bin_op.apply(a, b) == pair(a, b), "C01 binary operator receives (left, right)");
    core::mem::forget(op);
});

harness!(unary_append_after, unwind = 5, |s| {
    let x = s.u64(); s.assume(x < (1 << 30));
    // a = [t2] (inner), b = [t1] (outer, applied after a)
    let mut a = UnaryOp::from_vec(smallvec::smallvec![UnaryFuncWithIdx { f: T[1], idx: 1 }]);
    let b = UnaryOp::from_vec(smallvec::smallvec![UnaryFuncWithIdx { f: T[0], idx: 0 }]);
    let inner = a.apply(x);
    let outer_of_inner = b.apply(inner);
    a.append_after(b);
    assert!(a.len() == 2, "C01 append_after keeps every function");
    assert!(a.apply(x) == outer_of_inner, "C01 a.append_after(b): b is applied after a");
    assert!(a.apply(x) == expect(0, 2, x), "C01 append_after order");
    core::mem::forget(a);
});
harness!(unary_remove_latest, unwind = 6, |s| {
    let x = s.u64(); s.assume(x < (1 << 30));
    let mut a = chain(3);
    a.remove_latest();
    assert!(a.len() == 2, "C01 remove_latest removes one function");
    assert!(a.apply(x) == expect(1, 3, x), "C01 remove_latest drops the function applied last");
    core::mem::forget(a);
});
harness!(unary_append_iter, unwind = 5, |s| {
    let x = s.u64(); s.assume(x < (1 << 30));
    let mut c = UnaryOp::from_vec(smallvec::smallvec![UnaryFuncWithIdx { f: T[2], idx: 2 }]);
    c.append_after_iter([UnaryFuncWithIdx { f: T[0], idx: 0 }, UnaryFuncWithIdx { f: T[1], idx: 1 }].into_iter());
    assert!(c.len() == 3, "C01 append_after_iter keeps every function");
    assert!(c.apply(x) == expect(0, 3, x), "C01 append_after_iter: the new functions are applied after the existing ones, first of them last");
    core::mem::forget(c);
});

/// native-only probe beyond the inline capacity of the function list (16): 17 / 18 existing functions, two
/// new ones appended after them; the expected value is the composition written out with wrapping arithmetic
pub fn unary_append_big<S: Src>(s: &mut S) {
    let x = s.u64();
    let n = 15 + s.choice(6) as usize; // 15..=20 existing functions
    let w = |k: usize, v: u64| v.wrapping_mul(16).wrapping_add(k as u64 + 1);
    let existing: Vec<UnaryFuncWithIdx<u64>> = (0..n).map(|i| UnaryFuncWithIdx { f: T[i % 4], idx: i % 4 }).collect();
    let mut a = UnaryOp::from_iter(existing.into_iter());
    // inner value: f0(f1(..f_{n-1}(x)))
    let mut inner = x;
    for i in (0..n).rev() { inner = w(i % 4, inner); }
    assert!(a.apply(x) == inner, "C01 unary operators compose right-to-left (long chain)");
    a.append_after_iter([UnaryFuncWithIdx { f: T[2], idx: 2 }, UnaryFuncWithIdx { f: T[1], idx: 1 }].into_iter());
    // new functions run after the existing ones, the first of them last: t3(t2(inner))
    assert!(a.apply(x) == w(2, w(1, inner)), "C01 append_after_iter: the new functions are applied after the existing ones, first of them last (long chain)");
    let mut b = chain(2);
    let big: Vec<UnaryFuncWithIdx<u64>> = (0..n).map(|i| UnaryFuncWithIdx { f: T[(i + 1) % 4], idx: (i + 1) % 4 }).collect();
    let inner_b = b.apply(x);
    b.append_after(UnaryOp::from_iter(big.into_iter()));
    let mut e = inner_b;
    for i in (0..n).rev() { e = w((i + 1) % 4, e); }
    assert!(b.apply(x) == e, "C01 a.append_after(b): b is applied after a (long chain)");
}

registry!("u4", unary_append_big, unary_apply, flatop_apply, unary_append_after, unary_remove_latest, unary_append_iter);
