//! C09 — differentiation bookkeeping on the public `Differentiate` API (`partial`, `partial_nth`,
//! `partial_iter` and their `_relaxed` variants) for the flat and the deep form.
//!
//! NATIVE ONLY: `partial_iter` on a one-node expression does not finish under CBMC (25 min, design-phase
//! experiment), so these contract bodies are never run under Kani.  They are executed by
//! `exmex_replay --exhaust` on EVERY combination of a finite palette: 12 expressions, both forms, every index
//! sequence of length 0..=4 with entries 0..=nvars+1.  Bounded stand-in, not a proof.
//! Contract, from the property text:
//!   O-range   an index >= number of variables is an error for single, repeated and iterated differentiation
//!             (also when the running derivative is already zero), and nothing else is
//!   O-vars    a derivative has exactly the variable list of its antiderivative
//!   O-seq     the iterated derivative equals the sequential single ones in that order; order zero is the identity
//!   O-nth     the n-th derivative equals n single derivatives
//!   O-mixed   mixed partials agree in either order
use crate::src::Src;
use exmex::prelude::*;
use exmex::{DeepEx, FlatEx, MissingOpMode};

const EXPRS: [&str; 12] = ["x*y+z", "x*x*y", "sin(x)*y+z*z", "a+b", "7.5", "x", "exp(x)+y", "x/y", "a+sin(b)", "x^3+y^2*x", "{v 1}*{v 0}-{v 0}", "ln(x*y)+cos(z)/x"];
const POINTS: [[f64; 3]; 2] = [[0.5, 1.5, 2.5], [1.25, 0.75, 3.0]];

fn close(a: f64, b: f64) -> bool {
    (a.is_nan() && b.is_nan()) || a == b || (a - b).abs() <= 1e-9 * (1.0 + a.abs().max(b.abs()))
}
fn same<E: Express<'static, f64>>(a: &E, b: &E, n: usize) -> bool {
    POINTS.iter().all(|p| match (a.eval(&p[..n]), b.eval(&p[..n])) {
        (Ok(x), Ok(y)) => close(x, y),
        (Err(_), Err(_)) => true,
        _ => false,
    })
}

fn bookkeeping<S: Src, E>(s: &mut S)
where
    E: Express<'static, f64> + Differentiate<'static, f64> + Clone + core::fmt::Debug,
{
    let text = EXPRS[s.choice(12) as usize];
    let ex = E::parse(text).unwrap();
    let names: Vec<String> = ex.var_names().to_vec();
    let n = names.len();
    let relaxed = s.bool();
    let len = s.choice(5) as usize;
    let mut idxs: Vec<usize> = vec![];
    for _ in 0..len { idxs.push(s.choice(n as u8 + 2) as usize); }
    let bad = idxs.iter().any(|i| *i >= n);
    let r = if relaxed { ex.clone().partial_iter_relaxed(idxs.iter().copied(), MissingOpMode::None) } else { ex.clone().partial_iter(idxs.iter().copied()) };
    if bad {
        assert!(r.is_err(), "C09 O-range: an index not smaller than the number of variables is an error for iterated differentiation (checked for every entry, also once the running derivative is zero)");
        return;
    }
    let d = match r { Ok(d) => d, Err(_) => { assert!(false, "C09 O-range: in-range indices differentiate without error"); return; } };
    assert!(d.var_names() == &names[..], "C09 O-vars: a derivative has exactly the variable list of its antiderivative");
    // sequential single derivatives, variable list checked after every step
    let mut seq = ex.clone();
    for i in idxs.iter() {
        seq = match seq.partial(*i) { Ok(x) => x, Err(_) => { assert!(false, "C09 O-seq: a single derivative with an in-range index of a derivative succeeds (same variable list)"); return; } };
        assert!(seq.var_names() == &names[..], "C09 O-vars: a derivative has exactly the variable list of its antiderivative");
    }
    assert!(same(&d, &seq, n), "C09 O-seq: the iterated derivative equals the sequential single derivatives in that order (order zero: the identity)");
    if len == 0 { assert!(same(&d, &ex, n), "C09 O-seq: order zero is the identity"); }
    // n-th derivative
    if len >= 1 && idxs.iter().all(|i| *i == idxs[0]) {
        let nth = if relaxed { ex.clone().partial_nth_relaxed(idxs[0], len, MissingOpMode::None) } else { ex.clone().partial_nth(idxs[0], len) };
        match nth {
            Ok(dn) => { assert!(dn.var_names() == &names[..] && same(&dn, &seq, n), "C09 O-nth: the n-th derivative equals n single derivatives"); }
            Err(_) => assert!(false, "C09 O-nth: the n-th derivative with an in-range index succeeds"),
        }
    }
    // single out-of-range index on the (possibly zero) derivative: all three entry points
    assert!(d.clone().partial(n).is_err() && d.clone().partial_nth(n + 1, 2).is_err() && d.clone().partial_relaxed(n, MissingOpMode::None).is_err(),
        "C09 O-range: an index not smaller than the number of variables is an error for single and repeated differentiation of a derivative");
    // mixed partials
    if len == 2 {
        if let Ok(m) = ex.clone().partial_iter([idxs[1], idxs[0]].into_iter()) {
            assert!(same(&d, &m, n), "C09 O-mixed: mixed partials agree in either order");
        } else { assert!(false, "C09 O-mixed: in-range indices differentiate without error"); }
    }
}
pub fn bookkeeping_flat<S: Src>(s: &mut S) { bookkeeping::<S, FlatEx<f64>>(s) }
pub fn bookkeeping_deep<S: Src>(s: &mut S) { bookkeeping::<S, DeepEx<'static, f64>>(s) }

registry!("c09", bookkeeping_flat, bookkeeping_deep);
