//! Native replay driver: runs one harness body (the same function Kani verified) on a concrete
//! byte queue against /repo's real code.
//!   exmex_replay <harness> <hex bytes>        exit 0 = obligations hold on this input
//!                                             exit 1 = an obligation failed / the code panicked
//!                                             exit 3 = input violates the harness pre-condition
//!                                             exit 4 = unknown harness / bad usage
//!   exmex_replay --list
use exmex_contracts::src::{Q, REJECT};
use std::panic;

fn unhex(s: &str) -> Option<Vec<u8>> {
    let s: String = s.chars().filter(|c| !c.is_whitespace()).collect();
    if s.len() % 2 != 0 {
        return None;
    }
    (0..s.len()).step_by(2).map(|i| u8::from_str_radix(&s[i..i + 2], 16).ok()).collect()
}

fn main() {
    let args: Vec<String> = std::env::args().collect();
    let reg = exmex_contracts::registry();
    if args.len() == 2 && args[1] == "--list" {
        for (n, _) in &reg {
            println!("{n}");
        }
        return;
    }
    if args.len() != 3 {
        eprintln!("usage: exmex_replay <harness> <hex bytes> | --list");
        std::process::exit(4);
    }
    let Some((_, f)) = reg.iter().find(|(n, _)| *n == args[1]) else {
        eprintln!("unknown harness {}", args[1]);
        std::process::exit(4);
    };
    let Some(bytes) = unhex(&args[2]) else {
        eprintln!("bad hex");
        std::process::exit(4);
    };
    panic::set_hook(Box::new(|_| {}));
    let f = *f;
    let res = panic::catch_unwind(move || {
        let mut q = Q::new(&bytes);
        f(&mut q);
        (q.exhausted, q.bytes.len())
    });
    match res {
        Ok((exhausted, left)) => {
            println!("REPLAY pass harness={} exhausted={} unused_bytes={}", args[1], exhausted, left);
        }
        Err(e) => {
            let msg = if let Some(s) = e.downcast_ref::<&str>() {
                s.to_string()
            } else if let Some(s) = e.downcast_ref::<String>() {
                s.clone()
            } else {
                "<non-string panic>".to_string()
            };
            if msg == REJECT {
                println!("REPLAY reject harness={}", args[1]);
                std::process::exit(3);
            }
            println!("REPLAY fail harness={} message={:?}", args[1], msg);
            std::process::exit(1);
        }
    }
}
