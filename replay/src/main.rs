//! Native replay driver: runs one harness body (the same function Kani verified) on a concrete
//! byte queue against /repo's real code.
//!   exmex_replay <harness> <hex bytes> [--palette]   exit 0 = obligations hold on this input
//!                                                    exit 1 = an obligation failed / the code panicked
//!                                                    exit 3 = input violates the harness pre-condition
//!                                                    exit 4 = unknown harness / bad usage
//!   exmex_replay --search <harness> <tries> <seed>   palette-mode search for a failing input;
//!                                                    prints `FOUND <hex>` (exit 1) or `NOT-FOUND` (exit 0)
//!   exmex_replay --exhaust <harness> <payload radix> <max runs> [<shard> <shards>]
//!                                                    EVERY draw sequence of the harness (depth first; choices, bools and
//!                                                    ranges over their whole domain, typed payloads over the first
//!                                                    <payload radix> palette values); prints `FOUND <hex>` (exit 1; replay
//!                                                    with --palette), `EXHAUSTED runs=.. accepted=..` (exit 0) or
//!                                                    `TRUNCATED runs=..` (exit 5) when <max runs> was reached
//!   exmex_replay --list
//! In palette mode every typed draw consumes one byte and yields that type's boundary value with this
//! index (see `exmex_contracts::src::PAL_*`).
use exmex_contracts::src::{Enumerator, Q, REJECT};
use std::panic;

fn unhex(s: &str) -> Option<Vec<u8>> {
    let s: String = s.chars().filter(|c| !c.is_whitespace()).collect();
    if s.len() % 2 != 0 {
        return None;
    }
    (0..s.len()).step_by(2).map(|i| u8::from_str_radix(&s[i..i + 2], 16).ok()).collect()
}

/// 0 pass, 1 fail(message), 3 reject
fn run_once(f: exmex_contracts::NativeHarness, bytes: &[u8], palette: bool) -> (i32, String, bool, usize) {
    let b = bytes.to_vec();
    let res = panic::catch_unwind(move || {
        let mut q = if palette { Q::new_palette(&b) } else { Q::new(&b) };
        f(&mut q);
        (q.exhausted, q.bytes.len())
    });
    match res {
        Ok((ex, left)) => (0, String::new(), ex, left),
        Err(e) => {
            let msg = if let Some(s) = e.downcast_ref::<&str>() {
                s.to_string()
            } else if let Some(s) = e.downcast_ref::<String>() {
                s.clone()
            } else {
                "<non-string panic>".to_string()
            };
            if msg == REJECT { (3, msg, false, 0) } else { (1, msg, false, 0) }
        }
    }
}

fn main() {
    let args: Vec<String> = std::env::args().collect();
    let reg = exmex_contracts::registry();
    if args.len() == 2 && args[1] == "--list" {
        for (n, _) in &reg {
            println!("{n}");
        }
        return;
    }
    panic::set_hook(Box::new(|_| {}));
    if args.len() == 5 && args[1] == "--search" {
        let Some((_, f)) = reg.iter().find(|(n, _)| *n == args[2]) else {
            eprintln!("unknown harness {}", args[2]);
            std::process::exit(4);
        };
        let tries: u64 = args[3].parse().unwrap_or(10000);
        let mut state: u64 = args[4].parse::<u64>().unwrap_or(1).wrapping_mul(0x9E3779B97F4A7C15) | 1;
        let mut next = || { state ^= state << 13; state ^= state >> 7; state ^= state << 17; state };
        let mut buf = vec![0u8; 400];
        let mut accepted = 0u64;
        for t in 0..tries {
            // early tries: constant strings (every draw gets the same palette index), then random
            if t < 64 { for b in buf.iter_mut() { *b = t as u8; } } else { for b in buf.iter_mut() { *b = (next() >> 24) as u8; } }
            let (rc, msg, _, _) = run_once(*f, &buf, true);
            if rc == 0 { accepted += 1; }
            if rc == 1 {
                let hex: String = buf.iter().map(|b| format!("{:02x}", b)).collect();
                println!("FOUND {} message={:?}", hex, msg);
                std::process::exit(1);
            }
        }
        println!("NOT-FOUND after {} palette inputs ({} satisfied the harness pre-condition)", tries, accepted);
        return;
    }
    if (args.len() == 5 || args.len() == 7) && args[1] == "--exhaust" {
        let Some((_, f)) = reg.iter().find(|(n, _)| *n == args[2]) else {
            eprintln!("unknown harness {}", args[2]);
            std::process::exit(4);
        };
        let f = *f;
        let radix: u8 = args[3].parse().unwrap_or(1);
        let max: u64 = args[4].parse().unwrap_or(1_000_000);
        let (shard, shards): (u8, u8) = if args.len() == 7 { (args[5].parse().unwrap_or(0), args[6].parse().unwrap_or(1)) } else { (0, 1) };
        let mut en = Enumerator { payload_radix: radix, ..Default::default() };
        // sharding: a run belongs to the shard selected by its first PREFIX digits; once these are known, the whole
        // subtree of a foreign prefix is skipped without being run
        const PREFIX: usize = 6;
        let (mut runs, mut accepted) = (0u64, 0u64);
        loop {
            let h = en.digits.iter().take(PREFIX).fold(0xcbf29ce484222325u64, |a, d| (a ^ (*d as u64 + 1)).wrapping_mul(0x100000001b3));
            let key = ((h ^ (h >> 29)).wrapping_mul(0x9E3779B97F4A7C15) >> 40) % shards as u64;
            let mine = key == shard as u64;
            if !mine && en.digits.len() >= PREFIX {
                en.pos = PREFIX;
                if !en.advance() { break; }
                continue;
            }
            let mut q = Q::new_enumerating(std::mem::take(&mut en));
            let res = panic::catch_unwind(panic::AssertUnwindSafe(|| f(&mut q)));
            en = q.en.take().unwrap();
            if mine { runs += 1; }
            match res {
                Ok(()) => { if mine { accepted += 1; } }
                Err(e) => {
                    let msg = if let Some(s) = e.downcast_ref::<&str>() { s.to_string() } else if let Some(s) = e.downcast_ref::<String>() { s.clone() } else { "<non-string panic>".to_string() };
                    if msg != REJECT {
                        let hex: String = en.replay.iter().map(|b| format!("{:02x}", b)).collect();
                        println!("FOUND {} message={:?}", hex, msg);
                        std::process::exit(1);
                    }
                }
            }
            if !en.advance() { break; }
            if runs >= max {
                println!("TRUNCATED runs={} accepted={}", runs, accepted);
                std::process::exit(5);
            }
        }
        println!("EXHAUSTED runs={} accepted={}", runs, accepted);
        return;
    }
    let palette = args.len() == 4 && args[3] == "--palette";
    if !(args.len() == 3 || palette) {
        eprintln!("usage: exmex_replay <harness> <hex bytes> [--palette] | --search <harness> <tries> <seed> | --list");
        std::process::exit(4);
    }
    let Some((_, f)) = reg.iter().find(|(n, _)| *n == args[1]) else {
        eprintln!("unknown harness {}", args[1]);
        std::process::exit(4);
    };
    let Some(bytes) = unhex(&args[2]) else {
        eprintln!("bad hex");
        std::process::exit(4);
    };
    let (rc, msg, exhausted, left) = run_once(*f, &bytes, palette);
    match rc {
        0 => println!("REPLAY pass harness={} exhausted={} unused_bytes={}", args[1], exhausted, left),
        3 => { println!("REPLAY reject harness={}", args[1]); std::process::exit(3); }
        _ => { println!("REPLAY fail harness={} message={:?}", args[1], msg); std::process::exit(1); }
    }
}
