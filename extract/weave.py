#!/usr/bin/env python3
"""
weave.py — mechanical extraction of real exmex functions into one Verus file per unit.

Pipeline (DESIGN.md §2.2):  cut  ->  rewrite  ->  weave  ->  scan
  * cut:     items are located by a header regex and copied by brace matching (never by line
             number); comments and string literals are masked while matching.
  * rewrite: a fixed table of shape rewrites (R1..R6); every rule counts how often it fired.
  * weave:   contract text (requires/ensures/invariant/proof hints) from contracts/*.vrs is
             inserted at syntactic anchors.  Contract text never replaces repository tokens.
  * scan:    the generated file is scanned for trust-introducing constructs.

Everything that goes wrong here is a WeaveError -> the caller reports "undecided" (exit 2),
never a violation.
"""
import re
import os
import json


class WeaveError(Exception):
    pass


# --------------------------------------------------------------------------- lexical helpers

def code_mask(text):
    """mask[i] is True where text[i] is code (not inside a comment, string or char literal)."""
    n = len(text)
    mask = [True] * n
    i = 0
    while i < n:
        c = text[i]
        if text.startswith("//", i):
            j = text.find("\n", i)
            j = n if j < 0 else j
            for k in range(i, j):
                mask[k] = False
            i = j
        elif text.startswith("/*", i):
            depth, j = 1, i + 2
            while j < n and depth:
                if text.startswith("/*", j):
                    depth += 1
                    j += 2
                elif text.startswith("*/", j):
                    depth -= 1
                    j += 2
                else:
                    j += 1
            for k in range(i, j):
                mask[k] = False
            i = j
        elif c == '"':
            j = i + 1
            while j < n and text[j] != '"':
                j += 2 if text[j] == "\\" else 1
            for k in range(i, min(j + 1, n)):
                mask[k] = False
            i = j + 1
        elif c == "'":
            # char literal or lifetime
            m = re.match(r"'(\\.[^']*|[^'\\])'", text[i:])
            if m:
                for k in range(i, i + m.end()):
                    mask[k] = False
                i += m.end()
            else:
                i += 1
        else:
            i += 1
    return mask


OPEN = {"(": ")", "[": "]", "{": "}"}
CLOSE = {")": "(", "]": "[", "}": "{"}


def match_close(text, mask, open_pos):
    """position of the bracket closing the one at open_pos"""
    want = OPEN[text[open_pos]]
    opener = text[open_pos]
    depth = 0
    for i in range(open_pos, len(text)):
        if not mask[i]:
            continue
        if text[i] == opener:
            depth += 1
        elif text[i] == want:
            depth -= 1
            if depth == 0:
                return i
    raise WeaveError("unbalanced %r at offset %d" % (opener, open_pos))


def find_code(text, mask, regex, start=0):
    for m in re.finditer(regex, text[start:] if start else text, re.M):
        s = m.start() + start
        if mask[s]:
            return s, m
    return None, None


def item_end(text, mask, start):
    """end (exclusive) of the item starting at `start`: first ';' or matched '{...}' at depth 0."""
    depth = 0
    i = start
    while i < len(text):
        if mask[i]:
            c = text[i]
            if c in "([":
                depth += 1
            elif c in ")]":
                depth -= 1
            elif c == ";" and depth == 0:
                return i + 1
            elif c == "{" and depth == 0:
                return match_close(text, mask, i) + 1
        i += 1
    raise WeaveError("item starting at offset %d never ends" % start)


def line_of(text, pos):
    return text.count("\n", 0, pos) + 1


class Piece:
    """A cut item: text plus provenance"""

    def __init__(self, text, file, line, name):
        self.text = text
        self.file = file
        self.line = line
        self.name = name
        self.end_line = line + text.count("\n")

    def clone(self, text=None):
        p = Piece(self.text if text is None else text, self.file, self.line, self.name)
        p.end_line = self.end_line
        return p


class Source:
    def __init__(self, repo, rel):
        self.rel = rel
        path = os.path.join(repo, rel)
        try:
            self.text = open(path, encoding="utf-8").read()
        except OSError as e:
            raise WeaveError("cannot read %s: %s" % (path, e))
        self.mask = code_mask(self.text)

    def cut(self, header_regex, name=None, within=None):
        """cut the item whose header matches header_regex (must be unique)"""
        lo, hi = within if within else (0, len(self.text))
        hits = [m for m in re.finditer(header_regex, self.text, re.M)
                if self.mask[m.start()] and lo <= m.start() < hi]
        if len(hits) != 1:
            raise WeaveError("lost anchor: %d matches for /%s/ in %s" % (len(hits), header_regex, self.rel))
        s = hits[0].start()
        e = item_end(self.text, self.mask, s)
        return Piece(self.text[s:e], self.rel, line_of(self.text, s), name or header_regex), (s, e)


def cut_statements(source, fn_header_regex, first_anchor, last_anchor, name):
    """cut the statements from the one starting at `first_anchor` through the one containing
    `last_anchor`, both inside the function whose header matches fn_header_regex (statement-slice
    extraction: the surrounding function is NOT verified, only these statements inside a generated
    frame)"""
    fn_piece, (fs, fe) = source.cut(fn_header_regex, name)
    text, mask = source.text, source.mask
    def find(pat):
        if pat.startswith("re:"):
            hits = [m.start() for m in re.finditer(pat[3:], text[fs:fe]) if mask[fs + m.start()]]
            hits = [fs + h for h in hits]
        else:
            hits = [i for i in range(fs, fe) if text.startswith(pat, i) and mask[i]]
        if len(hits) != 1:
            raise WeaveError("lost anchor: %d matches for `%s` in %s" % (len(hits), pat, name))
        return hits[0]
    a = find(first_anchor)
    b = find(last_anchor)
    if b < a:
        raise WeaveError("statement anchors out of order in %s" % name)
    start = text.rfind("\n", 0, a) + 1
    end = _stmt_span(text, mask, b)
    return Piece(text[start:end], source.rel, line_of(text, start), name)


def methods_of(piece):
    """methods (name -> Piece incl. preceding attributes) of a trait/impl block piece, plus the
    offsets (start,end) inside piece.text"""
    text = piece.text
    mask = code_mask(text)
    lb = text.index("{")
    while not mask[lb]:
        lb = text.index("{", lb + 1)
    rb = match_close(text, mask, lb)
    out = []
    i = lb + 1
    depth = 0
    for m in re.finditer(r"(?:(?:#\[[^\]]*\]\s*)*)(?:pub\s+)?fn\s+(\w+)", text):
        s = m.start()
        if not mask[s] or s <= lb or s >= rb:
            continue
        # depth check: must be directly inside the block
        d = 0
        for k in range(lb + 1, s):
            if mask[k]:
                if text[k] == "{":
                    d += 1
                elif text[k] == "}":
                    d -= 1
        if d != 0:
            continue
        fn_kw = text.index("fn", m.start() if not m.group(0).startswith("#") else m.start())
        e = item_end(text, mask, m.end())
        p = Piece(text[s:e], piece.file, piece.line + text.count("\n", 0, s), m.group(1))
        out.append((m.group(1), p, s, e))
    return out, lb, rb


def split_fn(text):
    """(attrs+signature, body or None). body includes its braces; for declarations body is None
    and the signature excludes the trailing ';'"""
    mask = code_mask(text)
    depth = 0
    for i, c in enumerate(text):
        if not mask[i]:
            continue
        if c in "([":
            depth += 1
        elif c in ")]":
            depth -= 1
        elif c == "{" and depth == 0:
            return text[:i], text[i:]
        elif c == ";" and depth == 0:
            return text[:i], None
    raise WeaveError("cannot split function text")


# --------------------------------------------------------------------------- rewrites

class Rewrites:
    def __init__(self):
        self.hits = {}

    def count(self, rule, n=1):
        self.hits[rule] = self.hits.get(rule, 0) + n

    # R1: `for &x in E {`  ->  `for x_ref in it: E /*LOOP*/ { let x = *x_ref;`
    #     `for x in E {` stays but gets the iterator name and the loop marker as well.
    #     A bare slice identifier E gets `.iter()` (IntoIterator for &[T] is `self.iter()`).
    def r1_loops(self, text, bare_slices=()):
        mask = code_mask(text)
        out = []
        last = 0
        n = 0
        for m in re.finditer(r"\bfor\s+(&?)(\w+)\s+in\s+", text):
            if not mask[m.start()]:
                continue
            # find the '{' opening the loop body at paren depth 0
            i = m.end()
            depth = 0
            while i < len(text):
                if mask[i]:
                    c = text[i]
                    if c in "([":
                        depth += 1
                    elif c in ")]":
                        depth -= 1
                    elif c == "{" and depth == 0:
                        break
                i += 1
            else:
                raise WeaveError("for-loop header without body")
            expr = text[m.end():i].rstrip()
            amp, var = m.group(1), m.group(2)
            n += 1
            if expr.lstrip("&") in bare_slices:
                expr = expr.lstrip("&") + ".iter()"
                self.count("R1b")
            out.append(text[last:m.start()])
            if amp:
                out.append("for %s_ref in it: %s /*@LOOP %d@*/ { let %s = *%s_ref; /*@LOOPBODY %d@*/" % (var, expr, n, var, var, n))
                self.count("R1")
            else:
                out.append("for %s in it: %s /*@LOOP %d@*/ { /*@LOOPBODY %d@*/" % (var, expr, n, n))
            last = i + 1
        out.append(text[last:])
        return "".join(out)

    # R2: mem::take(numbers.iter_mut().next().unwrap()) -> mem::take(&mut numbers[0])
    def r2_iter_mut_first(self, text):
        new, k = re.subn(r"mem::take\(\s*(\w+)\.iter_mut\(\)\.next\(\)\.unwrap\(\)\s*\)", r"mem::take(&mut \1[0])", text)
        self.count("R2", k)
        return new

    # R3: SmallVec<[T; N]> -> Vec<T>; smallvec![v; n] / smallvec::smallvec![v; n] -> vec![v; n]
    def r3_smallvec(self, text):
        new, k1 = re.subn(r"\bSmallVec<\[\s*([^;\]]+?)\s*;\s*[^\]]+\]>", r"Vec<\1>", text)
        new, k2 = re.subn(r"\b(?:smallvec::)?smallvec!\[", "vec![", new)
        self.count("R3", k1 + k2)
        return new

    # R6: &mut X[..] -> X.as_mut_slice()
    def r6_full_range(self, text):
        new, k = re.subn(r"&mut\s+(\w+)\[\.\.\]", r"\1.as_mut_slice()", text)
        self.count("R6", k)
        return new

    # R5 helper: self -> self_
    def r5_self(self, text):
        new, k = re.subn(r"\bself\b", "self_", text)
        self.count("R5", 1)
        return new


# --------------------------------------------------------------------------- contract files

def load_contracts(path):
    """
    Contract file format:
        #### <target name>
        ## <directive> [argument]
        payload lines ...
    directives: ret NAME | spec | body-start | before `pat` | after `pat` | open `pat` |
                loop N | loop-body N | text (free text emitted in place of a target)
    Lines before the first #### are ignored (file comment).
    """
    targets = {}
    cur = None
    cur_dir = None
    try:
        lines = open(path, encoding="utf-8").read().split("\n")
    except OSError as e:
        raise WeaveError("cannot read contract file %s: %s" % (path, e))
    for ln, line in enumerate(lines, 1):
        if line.startswith("#### "):
            cur = line[5:].strip()
            if cur in targets:
                raise WeaveError("duplicate contract target %s" % cur)
            targets[cur] = []
            cur_dir = None
        elif line.startswith("## ") and cur is not None:
            parts = line[3:].strip().split(None, 1)
            kind = parts[0]
            arg = parts[1].strip() if len(parts) > 1 else ""
            if arg.startswith("`") and arg.endswith("`"):
                arg = arg[1:-1]
            cur_dir = {"kind": kind, "arg": arg, "payload": [], "line": ln, "file": os.path.basename(path)}
            targets[cur].append(cur_dir)
        elif cur_dir is not None:
            cur_dir["payload"].append(line)
    for t in targets.values():
        for d in t:
            while d["payload"] and not d["payload"][-1].strip():
                d["payload"].pop()
            d["text"] = "\n".join(d["payload"])
    return targets


# --------------------------------------------------------------------------- weaving

def _stmt_span(text, mask, start):
    """(s, e) of the statement containing offset start: e is just after the ';' at depth 0 that
    ends it, or after the closing '}' for a block-like statement that is followed by a newline."""
    depth = 0
    i = start
    while i < len(text):
        if mask[i]:
            c = text[i]
            if c in "([{":
                depth += 1
            elif c in ")]}":
                depth -= 1
                if depth < 0:
                    return i  # tail expression of a block: ends before the closing brace
            elif c == ";" and depth == 0:
                return i + 1
        i += 1
    return len(text)


def _line_start(text, pos):
    return text.rfind("\n", 0, pos) + 1


def _find_anchor(text, mask, pat, what):
    hits = []
    start = 0
    while True:
        i = text.find(pat, start)
        if i < 0:
            break
        if mask[i] or True:
            hits.append(i)
        start = i + 1
    hits = [h for h in hits if mask[h]]
    if len(hits) != 1:
        raise WeaveError("lost anchor: %d matches for `%s` in %s" % (len(hits), pat, what))
    return hits[0]


def weave_fn(text, directives, what, canary=False):
    """apply the directives of one target to the (already rewritten) text of one function"""
    inserts = []  # (offset, text)
    sig, body = split_fn(text)
    sig_end = len(sig)
    mask = code_mask(text)
    ret_name = None
    for d in directives:
        k, arg, payload = d["kind"], d["arg"], d["text"]
        if canary:
            payload = payload.replace("/*CANARY*/", "false,")
        if k == "ret":
            ret_name = arg
        elif k == "spec":
            inserts.append((sig_end, "\n" + payload + "\n", 1))
        elif k == "body-start":
            if body is None:
                raise WeaveError("body-start on a declaration in %s" % what)
            inserts.append((sig_end + 1, "\n" + payload + "\n", 0))
        elif k in ("before", "after", "open"):
            pos = _find_anchor(text, mask, arg, what)
            if k == "before":
                inserts.append((_line_start(text, pos), payload + "\n", 0))
            elif k == "after":
                e = _stmt_span(text, mask, pos)
                inserts.append((e, "\n" + payload, 0))
            else:
                # after the '{' that follows the anchor
                i = pos
                depth = 0
                while i < len(text):
                    if mask[i]:
                        c = text[i]
                        if c in "([":
                            depth += 1
                        elif c in ")]":
                            depth -= 1
                        elif c == "{" and depth == 0:
                            break
                    i += 1
                else:
                    raise WeaveError("no block after anchor `%s` in %s" % (arg, what))
                inserts.append((i + 1, "\n" + payload, 0))
        elif k == "tail":
            # before the tail expression of the function body: after the last top-level statement
            if body is None:
                raise WeaveError("tail on a declaration in %s" % what)
            depth = 0
            last_end = sig_end + 1
            for i in range(sig_end, len(text)):
                if not mask[i]:
                    continue
                c = text[i]
                if c in "([{":
                    depth += 1
                elif c in ")]}":
                    depth -= 1
                    if c == "}" and depth == 1:
                        last_end = i + 1
                elif c == ";" and depth == 1:
                    last_end = i + 1
            inserts.append((last_end, "\n" + payload + "\n", 0))
        elif k in ("loop", "loop-body"):
            marker = "/*@%s %s@*/" % ("LOOP" if k == "loop" else "LOOPBODY", arg)
            pos = text.find(marker)
            if pos < 0:
                raise WeaveError("lost anchor: loop %s not found in %s" % (arg, what))
            inserts.append((pos + len(marker), "\n" + payload + "\n", 0))
        else:
            raise WeaveError("unknown directive %s in %s" % (k, what))
    # return value naming
    if ret_name:
        smask = code_mask(sig)
        depth = 0
        arrow = None
        for i in range(len(sig) - 1):
            if not smask[i]:
                continue
            c = sig[i]
            if c in "([<":
                depth += 1
            elif c in ")]":
                depth -= 1
            elif c == ">" and sig[i - 1] != "-":
                depth -= 1
            elif sig.startswith("->", i) and depth == 0:
                arrow = i
        if arrow is None:
            raise WeaveError("no return type to name in %s" % what)
        rest = sig[arrow + 2:]
        m = re.search(r"\bwhere\b", rest)
        ty_end = m.start() if m else len(rest)
        ty = rest[:ty_end].strip()
        tail = rest[ty_end:]
        new_sig_tail = " (%s: %s)%s" % (ret_name, ty, ("\n" + tail) if tail.strip() else "")
        # replace region [arrow+2, sig_end)
        replaced = (arrow + 2, sig_end, new_sig_tail)
    else:
        replaced = None
    # apply inserts from the back; stable for equal offsets in file order
    order = sorted(range(len(inserts)), key=lambda j: (inserts[j][0], j))
    out = []
    last = 0
    for j in order:
        off, t, _ = inserts[j]
        seg = text[last:off]
        out.append(seg)
        out.append(t)
        last = off
    out.append(text[last:])
    result = "".join(out)
    if replaced:
        a, b, t = replaced
        # offsets before sig_end are unaffected by inserts at >= sig_end
        result = result[:a] + t + result[b:]
    return result


SCAN_PATTERNS = [
    r"\bassume\s*\(", r"\badmit\s*\(", r"external_body", r"assume_specification", r"#\[verifier::\w+",
    r"\bexternal\b", r"no_unwind", r"\buninterp\b",
]


def scan_assumptions(text):
    """list of (pattern, line number, stripped line) for trust-introducing constructs"""
    found = []
    for ln, line in enumerate(text.split("\n"), 1):
        code = line.split("//")[0]
        for pat in SCAN_PATTERNS:
            if re.search(pat, code):
                found.append({"construct": re.search(pat, code).group(0).strip(), "line": ln, "text": line.strip()[:200]})
                break
    return found


class LineMap:
    """origin of every generated line: ('repo', file, line) or ('contract', file, line) or ('gen',)"""

    def __init__(self):
        self.lines = []
        self.origin = []

    def add(self, text, origin_fn):
        for k, l in enumerate(text.split("\n")):
            self.lines.append(l)
            self.origin.append(origin_fn(k, l))

    def text(self):
        return "\n".join(self.lines) + "\n"
