#!/usr/bin/env python3
"""
gen_tables.py — mechanical extraction of the operator tables of /repo into Rust source that the
Kani harness crate compiles (DESIGN §2.3).

The closures of `FloatOpsFactory::make()` and `ValOpsFactory::make()` cannot be named, and calling
them through the real table's fn pointers is unaffordable for the value table (CBMC case-splits
over every address-taken function of that signature).  Therefore, on every run, the *text* of each
table entry is cut out of /repo/src/{operators,value}.rs and emitted as one function per entry:

    pub fn e_<name>_bin(a, b) -> T { let f: fn(T, T) -> T = <apply expression of the entry>; f(a, b) }

plus a constant TABLE with (repr, prio, is_commutative, kind, source text) per entry.

What the extraction keeps:  the entry's expression token for token.
What it changes (complete list):
  G1  identifiers of private functions of value.rs (`pow`, `add`, ...) are replaced by the hook's
      forwarding wrappers `v_pow`, `v_add`, ... (one-line `super::f(a, b)` bodies, /repo hook commit)
  G2  both tables stay generic with the impl block's own generic parameter list and where clause;
      the harnesses instantiate them (Val<i32, f64>, f64, f32)
  G4  the entry expression is called directly (static dispatch through `call1`/`call2`) instead of through
      the `fn` pointer it is coerced to inside the table
  G3  the association "this text is the entry for repr X" is by position in the source text, not by
      pointer identity with the run-time table (the concrete harness `u7::table_assoc` closes that gap
      for the entries that are named functions)
"""
import os
import re
import sys

sys.path.insert(0, os.path.dirname(os.path.abspath(__file__)))
from weave import WeaveError, code_mask, match_close

SYMS = {"^": "caret", "+": "plus", "-": "minus", "*": "star", "/": "slash", "%": "percent", "|": "pipe", "&": "amp",
        "<": "lt", ">": "gt", "=": "eq", "!": "bang", ".": "period"}


def ident(repr_):
    out = []
    for ch in repr_:
        if ch.isascii() and (ch.isalnum() or ch == "_"):
            out.append(ch)
        elif ch in SYMS:
            out.append("_" + SYMS[ch] + "_")
        else:
            out.append("_u%04x_" % ord(ch))
    s = re.sub(r"_+", "_", "".join(out)).strip("_")
    return s


def split_top(text, sep=","):
    """split at top-level separators; commas inside closure parameter lists `|a, b|` do not count"""
    mask = code_mask(text)
    parts, depth, last = [], 0, 0
    in_params = False
    prev = ""
    for i, c in enumerate(text):
        if not mask[i]:
            continue
        if in_params:
            if c == "|":
                in_params = False
            prev = c
            continue
        if c == "|" and prev in (":", "(", ",", "=", "") and text[i + 1:i + 2] != "|":
            in_params = True
        elif c in "([{":
            depth += 1
        elif c in ")]}":
            depth -= 1
        elif c == sep and depth == 0:
            parts.append(text[last:i])
            last = i + 1
        if not c.isspace():
            prev = c
    parts.append(text[last:])
    return [p for p in (x.strip() for x in parts) if p]


def parse_table(src, factory):
    """-> (impl_generics, where_clause, entries) ; entries: dicts repr, ctor, apply, prio, comm, unary, constant"""
    mask = code_mask(src)
    m = None
    for mm in re.finditer(r"impl(<[^{]*?>)?\s+MakeOperators<[^{]*?>\s+for\s+%s\b[^{]*\{" % re.escape(factory), src, re.S):
        if mask[mm.start()]:
            m = mm
            break
    if not m:
        raise WeaveError("lost anchor: impl MakeOperators for %s" % factory)
    header = src[m.start():m.end() - 1]
    gm = re.match(r"impl(<.*?>)?\s+MakeOperators", header, re.S)
    # generics: balanced <...> right after impl
    generics = ""
    if header[4:].lstrip().startswith("<"):
        i = header.index("<")
        depth = 0
        for j in range(i, len(header)):
            if header[j] == "<":
                depth += 1
            elif header[j] == ">" and header[j - 1] != "-":
                depth -= 1
                if depth == 0:
                    generics = header[i:j + 1]
                    break
    wm = re.search(r"\bwhere\b(.*)$", header, re.S)
    where = ("where" + wm.group(1)).strip() if wm else ""
    block_open = m.end() - 1
    block_close = match_close(src, mask, block_open)
    body = src[block_open:block_close]
    bmask = code_mask(body)
    vm = None
    for mm in re.finditer(r"\bvec!\[", body):
        if bmask[mm.start()]:
            vm = mm
            break
    if not vm:
        raise WeaveError("lost anchor: vec![ in %s::make" % factory)
    vo = vm.end() - 1
    vc = match_close(body, bmask, vo)
    elements = split_top(body[vo + 1:vc])
    entries = []
    for el in elements:
        em = re.match(r"Operator::(make_bin_unary|make_bin|make_unary|make_constant)\s*\(", el)
        if not em:
            raise WeaveError("unsupported table element in %s: %s" % (factory, el[:60]))
        inner_open = em.end() - 1
        inner_close = match_close(el, code_mask(el), inner_open)
        args = split_top(el[inner_open + 1:inner_close])
        rm = re.match(r'^"((?:[^"\\]|\\.)*)"$', args[0])
        if not rm:
            raise WeaveError("table element without literal repr: %s" % el[:60])
        e = {"repr": rm.group(1), "ctor": em.group(1), "apply": None, "prio": None, "comm": None, "unary": None, "constant": None}
        rest = args[1:]
        if e["ctor"] in ("make_bin", "make_bin_unary"):
            bm = re.match(r"BinOp\s*\{(.*)\}\s*$", rest[0], re.S)
            if not bm:
                raise WeaveError("binary entry %s without BinOp literal" % e["repr"])
            for fld in split_top(bm.group(1)):
                k, v = fld.split(":", 1)
                k = k.strip()
                v = v.strip()
                if k == "apply":
                    e["apply"] = v
                elif k == "prio":
                    e["prio"] = v
                elif k == "is_commutative":
                    e["comm"] = v
                else:
                    raise WeaveError("unknown BinOp field %s" % k)
            if e["apply"] is None or e["prio"] is None or e["comm"] is None:
                raise WeaveError("incomplete BinOp literal for %s" % e["repr"])
            if e["ctor"] == "make_bin_unary":
                e["unary"] = rest[1]
        elif e["ctor"] == "make_unary":
            e["unary"] = rest[0]
        else:
            e["constant"] = rest[0]
        entries.append(e)
    return generics, where, entries


CALL_HELPERS = """/// static-dispatch call helpers: give the entry expression its expected signature without coercing it to a `fn` pointer (G4)
#[inline(always)]
pub fn call2<T, G: Fn(T, T) -> T>(g: G, a: T, b: T) -> T { g(a, b) }
#[inline(always)]
pub fn call1<T, G: Fn(T) -> T>(g: G, a: T) -> T { g(a) }"""

def check_unique(entries):
    seen = {}
    for e in entries:
        n = ident(e["repr"])
        if n in seen:
            raise WeaveError("table entries %r and %r map to the same identifier %s" % (seen[n], e["repr"], n))
        seen[n] = e["repr"]


def rust_str(s):
    return '"' + s.replace("\\", "\\\\").replace('"', '\\"').replace("\n", " ") + '"'


def squash(s):
    return re.sub(r"\s+", " ", s).strip()


def gen_value(repo):
    src = open(os.path.join(repo, "src/value.rs"), encoding="utf-8").read()
    generics, where, entries = parse_table(src, "ValOpsFactory")
    # private function names = the hook's wrapper list (parsed from the hook module of /repo)
    hm = re.search(r"pub mod verif_hooks \{(.*)$", src, re.S)
    if not hm:
        raise WeaveError("lost anchor: value.rs verif_hooks module (hooks commit missing?)")
    priv = sorted(set(re.findall(r"v_(\w+)\s*,\s*p_\w+\s*=>\s*(\w+)", hm.group(1))), key=lambda x: -len(x[1]))
    names = {f: "v_" + v for v, f in priv}

    def g1(expr):
        def sub(m):
            return names[m.group(1)]
        pat = r"(?<![\.\w:])(%s)\b(?!\s*:)" % "|".join(re.escape(f) for f in names)
        return re.sub(pat, sub, expr)

    gm = re.findall(r"\b(\w+)\b", generics)
    if len(gm) < 2:
        raise WeaveError("value table impl does not have two generic parameters: %s" % generics)
    VT = "Val%s" % generics
    out = []
    out.append("// GENERATED on every run by /verif/extract/gen_tables.py from /repo/src/value.rs — DO NOT EDIT.")
    out.append("// One generic function per entry of ValOpsFactory::make(), expression text cut from the source;")
    out.append("// generic parameters and where clause are the impl block's own (G1, G3).")
    out.append("#![allow(unused_imports, non_snake_case, clippy::all)]")
    out.append("use exmex::verif_hooks::value::*;")
    out.append("use exmex::{DataType, ExError, Val};")
    out.append("use num::{Float, PrimInt, Signed};")
    out.append("use std::{fmt::Debug, str::FromStr};")
    out.append("pub struct Entry { pub repr: &'static str, pub ctor: &'static str, pub apply_src: &'static str, pub unary_src: &'static str, pub prio: Option<i64>, pub comm: Option<bool> }")
    out.append(CALL_HELPERS)
    tab = []
    fns = []
    check_unique(entries)
    for e in entries:
        nm = ident(e["repr"])
        tab.append("    Entry { repr: %s, ctor: %s, apply_src: %s, unary_src: %s, prio: %s, comm: %s }," % (
            rust_str(e["repr"]), rust_str(e["ctor"]), rust_str(squash(e["apply"] or "")), rust_str(squash(e["unary"] or "")),
            ("Some(%s)" % e["prio"]) if e["prio"] else "None", ("Some(%s)" % e["comm"]) if e["comm"] else "None"))
        if e["apply"]:
            fns.append("/// binary entry `%s` of the value table\npub fn e_%s_bin%s(a: %s, b: %s) -> %s\n%s\n{\n    call2::<%s, _>(%s, a, b)\n}" % (
                e["repr"], nm, generics, VT, VT, VT, where, VT, g1(e["apply"])))
        if e["unary"]:
            fns.append("/// unary entry `%s` of the value table\npub fn e_%s_un%s(a: %s) -> %s\n%s\n{\n    call1::<%s, _>(%s, a)\n}" % (
                e["repr"], nm, generics, VT, VT, where, VT, g1(e["unary"])))
        if e["constant"]:
            fns.append("/// constant `%s` of the value table\npub fn e_%s_const%s() -> %s\n%s\n{\n    %s\n}" % (e["repr"], nm, generics, VT, where, g1(e["constant"])))
    out.append("pub const TABLE: &[Entry] = &[\n%s\n];" % "\n".join(tab))
    out += fns
    return "\n".join(out) + "\n", entries


def gen_float(repo):
    src = open(os.path.join(repo, "src/operators.rs"), encoding="utf-8").read()
    generics, where, entries = parse_table(src, "FloatOpsFactory")
    gm = re.match(r"<\s*(\w+)", generics)
    if not gm:
        raise WeaveError("float table impl has no generic parameter")
    T = gm.group(1)
    out = []
    out.append("// GENERATED on every run by /verif/extract/gen_tables.py from /repo/src/operators.rs — DO NOT EDIT.")
    out.append("// One generic function per entry of FloatOpsFactory::make(), expression text cut from the source;")
    out.append("// the generic parameter list is the impl block's own.")
    out.append("#![allow(unused_imports, non_snake_case, clippy::all)]")
    out.append("use num::Float;\nuse std::fmt::Debug;")
    out.append("pub struct Entry { pub repr: &'static str, pub ctor: &'static str, pub apply_src: &'static str, pub unary_src: &'static str, pub prio: Option<i64>, pub comm: Option<bool> }")
    out.append(CALL_HELPERS)
    tab, fns = [], []
    check_unique(entries)
    for e in entries:
        nm = ident(e["repr"])
        tab.append("    Entry { repr: %s, ctor: %s, apply_src: %s, unary_src: %s, prio: %s, comm: %s }," % (
            rust_str(e["repr"]), rust_str(e["ctor"]), rust_str(squash(e["apply"] or "")), rust_str(squash(e["unary"] or "")),
            ("Some(%s)" % e["prio"]) if e["prio"] else "None", ("Some(%s)" % e["comm"]) if e["comm"] else "None"))
        if e["apply"]:
            fns.append("/// binary entry `%s` of the float table\npub fn e_%s_bin%s(a: %s, b: %s) -> %s %s {\n    call2::<%s, _>(%s, a, b)\n}" % (
                e["repr"], nm, generics, T, T, T, where, T, e["apply"]))
        if e["unary"]:
            fns.append("/// unary entry `%s` of the float table\npub fn e_%s_un%s(a: %s) -> %s %s {\n    call1::<%s, _>(%s, a)\n}" % (
                e["repr"], nm, generics, T, T, where, T, e["unary"]))
        if e["constant"]:
            fns.append("/// constant `%s` of the float table\npub fn e_%s_const%s() -> %s %s {\n    %s\n}" % (e["repr"], nm, generics, T, where, e["constant"]))
    out.append("pub const TABLE: &[Entry] = &[\n%s\n];" % "\n".join(tab))
    out += fns
    return "\n".join(out) + "\n", entries


# operand domain of the "flagged commutative => really associative and commutative" obligation,
# per operator (part of the contract, DESIGN §4.7 O-flag-AC):
#   bool    — `&&`, `||` are documented for booleans only
#   smallint— `*`: ints in -100..=100 (32-bit multiplier associativity is out of reach of SAT)
#   arr3    — vector operators: arrays of length 3
#   intbool — everything else: any Int / Bool operands
# operators for which the documentation does NOT promise "error operand -> error result"
# (logical, comparison and the if/else pair); every other entry must propagate errors
NO_PROPAGATION = {"&&", "||", "==", "!=", "<", "<=", ">", ">=", "if", "else"}
AC_DOMAIN = {"&&": "DOM_BOOL", "||": "DOM_BOOL", "*": "DOM_SMALLINT", "cross": "DOM_ARR3", "dot": "DOM_ARR3"}


def gen_value_harnesses(entries):
    out = ["// GENERATED on every run by /verif/extract/gen_tables.py — DO NOT EDIT.",
           "// One totality harness (C17) per entry of the value table, scalar tier and array tier (Val<i32, f64>) and",
           "// scalar tier of the second instantiation Val<i64, f32>, and one",
           "// associativity/commutativity harness (C16 O-flag-AC) per entry flagged `is_commutative: true`.",
           "#![allow(non_snake_case)]",
           "use crate::gen_value_table::*;", "use crate::u7::*;"]
    names = {"total_scalar": [], "total_array": [], "total_i64_f32": [], "ac": [], "ac_slow": [], "const": []}
    for e in entries:
        nm = ident(e["repr"])
        unw = {"^": 34, "fact": 16}.get(e["repr"], 3)
        prop = "false" if e["repr"] in NO_PROPAGATION else "true"
        if e["apply"]:
            out.append("vharness!(t_%s_bin, unwind = %d, |s| { total2(s, e_%s_bin::<i32, f64>, false, %s) });" % (nm, max(unw, 7), nm, prop))
            out.append("vharness!(ta_%s_bin, unwind = %d, |s| { total2(s, e_%s_bin::<i32, f64>, true, %s) });" % (nm, max(unw, 11), nm, prop))
            names["total_scalar"].append("t_%s_bin" % nm)
            names["total_array"].append("ta_%s_bin" % nm)
            out.append("vharness!(tg_%s_bin, unwind = %d, |s| { total2g::<S, i64, f32, _>(s, e_%s_bin::<i64, f32>) });" % (nm, {"^": 66}.get(e["repr"], 7), nm))
            names["total_i64_f32"].append("tg_%s_bin" % nm)
            if e["comm"] == "true":
                out.append("vharness!(ac_%s, unwind = 7, |s| { ac_check(s, e_%s_bin::<i32, f64>, %s) });" % (nm, nm, AC_DOMAIN.get(e["repr"], "DOM_INTBOOL")))
                # `*`: multiplier associativity needs ~6 min of SAT time even on |x| <= 100 -> thorough tier
                names["ac_slow" if e["repr"] == "*" else "ac"].append("ac_%s" % nm)
        if e["unary"]:
            out.append("vharness!(t_%s_un, unwind = %d, |s| { total1(s, e_%s_un::<i32, f64>, false, %s) });" % (nm, max(unw, 7), nm, prop))
            out.append("vharness!(ta_%s_un, unwind = %d, |s| { total1(s, e_%s_un::<i32, f64>, true, %s) });" % (nm, max(unw, 11), nm, prop))
            names["total_scalar"].append("t_%s_un" % nm)
            names["total_array"].append("ta_%s_un" % nm)
            out.append("vharness!(tg_%s_un, unwind = %d, |s| { total1g::<S, i64, f32, _>(s, e_%s_un::<i64, f32>) });" % (nm, {"fact": 24}.get(e["repr"], 7), nm))
            names["total_i64_f32"].append("tg_%s_un" % nm)
    allh = names["total_scalar"] + names["total_array"] + names["total_i64_f32"] + names["ac"] + names["ac_slow"]
    out.append("registry!(\"vgen\", %s);" % ", ".join(allh))
    return "\n".join(out) + "\n", names


def gen_attach(repo):
    """statement slices of the two places that pick the operator a parenthesis group's unary chain is attached to
    (DESIGN assumption A-attach): the `let lowest_prio_flat_op = ...;` statement of flat.rs make_expression and the
    `let low_prio_op = match ... ;` statement of flat.rs flatten_vecs, each wrapped into a generated function that
    returns the `bin_op.idx` of the chosen operator.  What is kept: the statement, token for token.  What is
    dropped: everything around it (how flat_ops / depth are produced, what is appended to the chosen operator)."""
    from weave import Source, cut_statements
    flat = Source(repo, "src/expression/flat.rs")
    m = re.search(r"^const DEPTH_PRIO_STEP: i64 = [^;]+;", flat.text, re.M)
    if not m:
        raise WeaveError("lost anchor: const DEPTH_PRIO_STEP")
    s1 = cut_statements(flat, r"^    pub\(super\) fn make_expression<", "let lowest_prio_flat_op", "let lowest_prio_flat_op", "make_expression attach site")
    s2 = cut_statements(flat, r"^pub fn flatten_vecs<", "let low_prio_op = match", "let low_prio_op = match", "flatten_vecs attach site")
    out = ["// GENERATED on every run by /verif/extract/gen_tables.py (gen_attach) from /repo/src/expression/flat.rs — DO NOT EDIT.",
           "// Statement slices of the two unary-attachment sites inside generated frames (see gen_attach's docstring).",
           "#![allow(unused_imports, unused_mut, clippy::all)]",
           "use exmex::verif_hooks::*;", "use smallvec::SmallVec;",
           m.group(0),
           "pub type FlatOpVec<T> = SmallVec<[FlatOp<T>; N_NODES_ON_STACK]>;",
           "/// make_expression, closing parenthesis at nesting depth `depth`: the operator that receives the unary chain",
           "pub fn attach_target_parse<T: Clone>(flat_ops: &mut FlatOpVec<T>, depth: i64) -> Option<usize> {",
           s1.text.rstrip(),
           "    lowest_prio_flat_op.map(|o| o.bin_op.idx)", "}",
           "/// flatten_vecs (deep -> flat): the operator that receives the unary chain of a deep expression",
           "pub fn attach_target_flatten<T: Clone>(flat_ops: &mut FlatOpVec<T>) -> usize {",
           s2.text.rstrip(),
           "    low_prio_op.bin_op.idx", "}"]
    return "\n".join(out) + "\n"


def write_if_changed(path, text):
    try:
        if open(path, encoding="utf-8").read() == text:
            return False
    except OSError:
        pass
    with open(path, "w", encoding="utf-8") as f:
        f.write(text)
    return True


def generate(repo, outdir):
    vt, ve = gen_value(repo)
    ft, fe = gen_float(repo)
    vh, names = gen_value_harnesses(ve)
    write_if_changed(os.path.join(outdir, "gen_value_table.rs"), vt)
    write_if_changed(os.path.join(outdir, "gen_float_table.rs"), ft)
    write_if_changed(os.path.join(outdir, "vgen.rs"), vh)
    # the attachment-site slices only matter to C01: a lost anchor there must not leave every other check undecided
    attach_error = None
    try:
        at = gen_attach(repo)
    except WeaveError as e:
        attach_error = str(e)
        at = ("// GENERATED placeholder: %s\n#![allow(unused)]\nuse exmex::verif_hooks::*;\nuse smallvec::SmallVec;\n"
              "pub type FlatOpVec<T> = SmallVec<[FlatOp<T>; N_NODES_ON_STACK]>;\n"
              "pub fn attach_target_parse<T: Clone>(_f: &mut FlatOpVec<T>, _d: i64) -> Option<usize> { unimplemented!() }\n"
              "pub fn attach_target_flatten<T: Clone>(_f: &mut FlatOpVec<T>) -> usize { unimplemented!() }\n") % attach_error.replace("\n", " ")
    write_if_changed(os.path.join(outdir, "gen_attach.rs"), at)
    return {"value_entries": ve, "float_entries": fe, "value_harnesses": names, "attach_error": attach_error}


if __name__ == "__main__":
    repo = sys.argv[1] if len(sys.argv) > 1 else "/repo"
    outdir = sys.argv[2] if len(sys.argv) > 2 else os.path.join(os.path.dirname(os.path.dirname(os.path.abspath(__file__))), "kani", "src")
    try:
        r = generate(repo, outdir)
        print({"value_entries": len(r["value_entries"]), "float_entries": len(r["float_entries"]), "harnesses": {k: len(v) for k, v in r["value_harnesses"].items()}})
    except WeaveError as e:
        print("WEAVE-ERROR: %s" % e, file=sys.stderr)
        sys.exit(2)
