#!/usr/bin/env python3
"""Unit assembly: which items of /repo go into which generated Verus file, in which order,
with which rewrites.  The contract text lives in contracts/*.vrs."""
import os
import re
import sys

sys.path.insert(0, os.path.dirname(os.path.abspath(__file__)))
from weave import (WeaveError, Source, Piece, Rewrites, load_contracts, methods_of, split_fn, cut_statements,
                   weave_fn, scan_assumptions, code_mask)

HERE = os.path.dirname(os.path.abspath(__file__))
CONTRACTS = os.path.join(os.path.dirname(HERE), "contracts")


class Unit:
    def __init__(self, name, repo, canary=None):
        self.name = name
        self.repo = repo
        self.canary = canary          # name of the target whose /*CANARY*/ marker becomes `false,`
        self.rw = Rewrites()
        self.chunks = []              # (text, origin dict)
        self.functions = []           # functions under contract: {name, file, line, end_line, woven_as}
        self.canary_targets = []
        self.used_targets = set()

    def load(self, fname):
        self.contracts = load_contracts(os.path.join(CONTRACTS, fname))
        self.contract_file = fname
        for t, ds in self.contracts.items():
            for d in ds:
                if "/*CANARY*/" in d["text"]:
                    self.canary_targets.append(t)

    def directives(self, target, allow_missing=False):
        if target not in self.contracts:
            if allow_missing:
                return []
            raise WeaveError("contract target %s missing in %s" % (target, self.contract_file))
        self.used_targets.add(target)
        return self.contracts[target]

    def emit_text(self, target):
        ds = self.directives(target)
        for d in ds:
            if d["kind"] != "text":
                raise WeaveError("target %s must be a text block" % target)
            self.chunks.append((d["text"] + "\n", {"kind": "contract", "target": target}))

    def emit_fn(self, piece, target, text=None, record=True, woven_as=None):
        t = piece.text if text is None else text
        out = weave_fn(t, self.directives(target), target, canary=(self.canary == target))
        self.chunks.append((out + "\n", {"kind": "repo", "target": target, "file": piece.file, "line": piece.line}))
        if record:
            self.functions.append({"name": piece.name, "file": piece.file, "line": piece.line,
                                   "end_line": piece.end_line, "woven_as": woven_as or target})

    def emit_raw(self, text, origin):
        self.chunks.append((text + "\n", origin))

    def finish(self):
        unused = set(self.contracts) - self.used_targets
        if unused:
            raise WeaveError("contract targets never woven: %s" % sorted(unused))
        text = "".join(c for c, _ in self.chunks)
        left = re.findall(r"/\*@LOOP(?:BODY)? \d+@\*/", text)
        text = re.sub(r"/\*@LOOP(?:BODY)? \d+@\*/", "", text)
        text = text.replace("/*CANARY*/", "")
        return text


def weave_block(unit, block, block_target, method_prefix, hoist=None, hoist_prefix=None, self_ty=None, body_rewrite=None,
                only=None, free_generics=""):
    """weave a trait / impl block method by method.  Methods named in `hoist` are moved to free
    functions `<hoist_prefix>_<name>(self_: <self_ty>, ...)` (R5) and replaced by a delegation."""
    hoist = hoist or []
    methods, lb, rb = methods_of(block)
    text = block.text
    free_fns = []
    out = []
    last = 0
    for name, piece, s, e in methods:
        out.append(text[last:s])
        if only is not None and name not in only:
            # methods Verus cannot accept are not part of the unit (stated in the unit's description)
            last = e
            continue
        mtext = piece.text
        if name in hoist:
            sig, body = split_fn(mtext)
            if body is None:
                raise WeaveError("cannot hoist declaration %s" % name)
            m = re.search(r"fn\s+%s\s*\(\s*(&mut\s+self|&self)\s*(,?)" % name, sig)
            if not m:
                raise WeaveError("lost anchor: receiver of %s" % name)
            recv = m.group(1)
            ty = ("&mut " if "mut" in recv else "&") + self_ty
            free_name = "%s_%s" % (hoist_prefix, name)
            new_sig = sig[:m.start()] + "fn %s%s(self_: %s%s" % (free_name, free_generics, ty, m.group(2)) + sig[m.end():]
            new_body = unit.rw.r5_self(body)
            if body_rewrite:
                new_body = body_rewrite(new_body)
            new_body = unit.rw.r1_loops(new_body)
            free_piece = piece.clone()
            free_piece.name = "<%s as %s>::%s" % (self_ty, method_prefix, name)
            free_fns.append((free_piece, free_name, new_sig + new_body))
            # delegation (generated text, carries no proof weight)
            args = re.findall(r"(\w+)\s*:", sig[m.end():].split(")")[0])
            attr = "#[verifier::external_body] " if (self_ty, name) in EXTERNAL_DELEGATIONS else ""
            deleg = "%s%s { %s(%s) }" % (attr, sig.strip(), free_name, ", ".join(["self"] + args))
            # an inherent method has no trait to carry its contract: the delegation gets it from the contract file
            dtarget = "%s::%s" % (self_ty, name)
            dds = unit.directives(dtarget, allow_missing=True)
            if dds:
                deleg = weave_fn(deleg, dds, dtarget)
            out.append(deleg)
        else:
            target = "%s::%s" % (method_prefix if block_target.startswith("trait") else self_ty, name)
            ds = unit.directives(target, allow_missing=True)
            mt = unit.rw.r1_loops(mtext)
            out.append(weave_fn(mt, ds, target, canary=(unit.canary == target)))
            unit.functions.append({"name": "%s::%s" % (block.name, name), "file": piece.file, "line": piece.line,
                                   "end_line": piece.end_line, "woven_as": target})
        last = e
    out.append(text[last:])
    new_text = "".join(out)
    # block-level body-start
    ds = unit.directives(block_target, allow_missing=True)
    if ds:
        mask = code_mask(new_text)
        i = new_text.index("{")
        while not mask[i]:
            i = new_text.index("{", i + 1)
        ins = "\n".join(d["text"] for d in ds if d["kind"] == "body-start")
        new_text = new_text[:i + 1] + "\n" + ins + "\n" + new_text[i + 1:]
    return new_text, free_fns


# the one generated delegation that must not be verified (Verus quirk, DESIGN §2.2 R5)
EXTERNAL_DELEGATIONS = {("[usize]", "get_previous"), ("UnaryOp<T>", "apply")}


def build_u123(repo, canary=None):
    u = Unit("u123", repo, canary)
    u.load("u123.vrs")
    nt = Source(repo, "src/expression/number_tracker.rs")
    mod = Source(repo, "src/expression/mod.rs")
    flat = Source(repo, "src/expression/flat.rs")
    ops = Source(repo, "src/operators.rs")
    res = Source(repo, "src/result.rs")

    trait, _ = nt.cut(r"^pub trait NumberTracker\b", "trait NumberTracker")
    impl_word, _ = nt.cut(r"^impl NumberTracker for usize\b", "impl NumberTracker for usize")
    impl_slice, _ = nt.cut(r"^impl NumberTracker for \[usize\]", "impl NumberTracker for [usize]")
    # R4: `#[cfg(test)] mod test` is simply never cut.

    u.emit_text("prelude")
    # crate-level constants the cut code may mention (cut verbatim)
    defs = Source(repo, "src/definitions.rs")
    for m in re.finditer(r"^pub const \w+: usize = [^;]+;", defs.text, re.M):
        u.emit_raw(m.group(0), {"kind": "repo", "file": defs.rel, "line": defs.text.count("\n", 0, m.start()) + 1})

    word_text, word_free = weave_block(u, impl_word, "impl usize", "NumberTracker",
                                       hoist=["get_previous", "get_next"], hoist_prefix="word", self_ty="usize")
    for piece, free_name, text in word_free:
        u.emit_fn(piece, free_name, text=text, woven_as=free_name)

    trait_text, _ = weave_block(u, trait, "trait NumberTracker", "NumberTracker")
    u.emit_raw(trait_text, {"kind": "repo", "file": trait.file, "line": trait.line})
    u.emit_raw(word_text, {"kind": "repo", "file": impl_word.file, "line": impl_word.line})

    u.emit_text("slice view")

    def slice_body_rw(body):
        new, k = re.subn(r"self_\[(\w+)\]\.(get_previous|get_next)\((\w+)\)", r"word_\2(&self_[\1], \3)", body)
        u.rw.count("R5b", k)
        return new

    slice_text, slice_free = weave_block(u, impl_slice, "impl [usize]", "NumberTracker",
                                         hoist=["get_previous", "get_next", "ignore"], hoist_prefix="slice",
                                         self_ty="[usize]", body_rewrite=slice_body_rw)
    for piece, free_name, text in slice_free:
        u.emit_fn(piece, free_name, text=text, woven_as=free_name)
    u.emit_raw(slice_text, {"kind": "repo", "file": impl_slice.file, "line": impl_slice.line})

    u.emit_text("mem take")

    ob, _ = ops.cut(r"^pub trait OperateBinary<T>", "trait OperateBinary")
    ob_text, _ = weave_block(u, ob, "trait OperateBinary", "OperateBinary")
    u.emit_raw(ob_text, {"kind": "repo", "file": ob.file, "line": ob.line})

    u.emit_text("reference semantics")

    eb, _ = mod.cut(r"^pub fn eval_binary<", "eval_binary")
    t = u.rw.r1_loops(eb.text, bare_slices=("prio_indices",))
    t = u.rw.r2_iter_mut_first(t)
    u.emit_fn(eb, "eval_binary", text=t)

    u.emit_text("eval_numbers stubs")
    alias, _ = res.cut(r"^pub type ExResult<U>", "type ExResult")
    u.emit_raw(alias.text, {"kind": "repo", "file": alias.file, "line": alias.line})
    en, _ = flat.cut(r"^    fn eval_numbers<", "eval_numbers")
    t = u.rw.r3_smallvec(en.text)
    t = u.rw.r6_full_range(t)
    u.emit_fn(en, "eval_numbers", text=t)

    # U3b: the second tracker-selection site, deep.rs eval_relaxed (statement slice inside a generated frame)
    deep = Source(repo, "src/expression/deep.rs")
    site = cut_statements(deep, r"^    fn eval_relaxed\(&self, vars: &\[T\]\) -> ExResult<T>", "let mut tracker", "let binary_evaluation = eval_binary(", "DeepEx::eval_relaxed tracker site")
    t = u.rw.r3_smallvec(site.text)
    t = u.rw.r6_full_range(t)
    # R7: expressions over `self` / owned locals of the enclosing function become frame parameters
    t, k1 = re.subn(r"&self\.bin_ops\(\)\.ops", "frame_bin_ops", t)
    t, k2 = re.subn(r"&prio_indices\b", "frame_prio_indices", t)
    u.rw.count("R7", k1 + k2)
    if k1 != 1 or k2 != 1:
        raise WeaveError("lost anchor: R7 operands of the eval_binary call in DeepEx::eval_relaxed")
    frame = u.directives("deep site frame")
    head = [d for d in frame if d["kind"] == "text"][0]["text"]
    if u.canary == "deep site frame":
        head = head.replace("/*CANARY*/", "false,")
    body = weave_fn("fn frame() {\n" + t + "\n}", [d for d in frame if d["kind"] != "text"], "deep site frame")
    inner = body[body.index("{") + 1: body.rindex("}")]
    u.emit_raw(head + "\n{" + inner + "\n    binary_evaluation\n}", {"kind": "repo", "file": site.file, "line": site.line})
    u.functions.append({"name": "DeepEx::eval_relaxed (statements `let mut tracker ..` through `eval_binary(..)` only)", "file": site.file,
                        "line": site.line, "end_line": site.end_line, "woven_as": "deep site frame"})

    # U3c: the inlined copy of the reduction loop in flat.rs flatex_to_deepex (statement slice): tracker
    # construction, debug_assert!, loop header and the index computation up to the `assert!`; the rest
    # of the loop body builds DeepEx nodes and never touches the tracker, it is dropped and the loop
    # is closed by a generated `}`.
    site = cut_statements(flat, r"^    pub\(super\) fn flatex_to_deepex<", "let mut tracker", r"re:(?<![_\w])assert!\(", "flatex_to_deepex tracker loop")
    t = u.rw.r3_smallvec(site.text)
    t, k1 = re.subn(r"\bdeep_nodes\.len\(\)", "frame_n_nodes", t)
    t, k2 = re.subn(r"\bflat_ops\.len\(\)", "frame_n_ops", t)
    t, k3 = re.subn(r"in\s+&prio_inds\b", "in frame_prio_inds.iter()", t)
    u.rw.count("R7", k1 + k2 + k3)
    if k1 < 1 or k2 != 1 or k3 != 1:
        raise WeaveError("lost anchor: R7 operands in the flatex_to_deepex tracker loop (%d, %d, %d)" % (k1, k2, k3))
    # R6c: the tracker's method calls resolve through Deref/DerefMut of the (Small)Vec to the slice impl at
    # every call; here the slice is borrowed once (`/*@SLICE@*/` marker, filled by the frame contract) and
    # the calls go to that borrow
    t, k4 = re.subn(r"\btracker\.(get_previous|get_next|max_len|consume_next|ignore)\(", r"tracker_sl.\1(", t)
    u.rw.count("R6c", k4)
    if k4 < 3:
        raise WeaveError("lost anchor: tracker method calls in the flatex_to_deepex loop")
    t = u.rw.r1_loops(t)
    frame = u.directives("flat2deep loop frame")
    head = [d for d in frame if d["kind"] == "text"][0]["text"]
    if u.canary == "flat2deep loop frame":
        head = head.replace("/*CANARY*/", "false,")
    body = weave_fn("fn frame() {\n" + t + "\n        } // generated: end of the loop (rest of the body dropped)\n}", [d for d in frame if d["kind"] != "text"], "flat2deep loop frame")
    inner = body[body.index("{") + 1: body.rindex("}")]
    u.emit_raw(head + "\n{" + inner + "\n}", {"kind": "repo", "file": site.file, "line": site.line})
    u.functions.append({"name": "flatex_to_deepex (statements `let mut tracker ..` through the loop's `assert!(..)` only)", "file": site.file,
                        "line": site.line, "end_line": site.end_line, "woven_as": "flat2deep loop frame"})

    u.emit_text("epilogue")
    return u, u.finish()


def strip_attrs(text):
    """R8: `#[derive(..)]` / doc attributes in front of a cut item are dropped (derives would need the traits
    on the opaque stand-in types)"""
    return re.sub(r"^\s*#\[[^\]]*\]\s*\n", "", text, flags=re.M)


def build_u4(repo, canary=None):
    u = Unit("u4", repo, canary)
    u.load("u4.vrs")
    ops = Source(repo, "src/operators.rs")
    flat = Source(repo, "src/expression/flat.rs")
    u.emit_text("prelude")
    u.emit_text("type alias")   # R3 applied to `pub type VecOfUnaryFuncs<T> = SmallVec<[UnaryFuncWithIdx<T>; N]>`
    alias, _ = ops.cut(r"^pub type VecOfUnaryFuncs<T>", "type VecOfUnaryFuncs")
    if u.rw.r3_smallvec(alias.text).replace(" ", "") != "pubtypeVecOfUnaryFuncs<T>=Vec<UnaryFuncWithIdx<T>>;":
        raise WeaveError("lost anchor: VecOfUnaryFuncs is no longer a SmallVec of UnaryFuncWithIdx<T>: %s" % alias.text)
    st, _ = ops.cut(r"^pub struct UnaryOp<T>", "struct UnaryOp")
    # R9: Verus wants the type parameter of a struct that mentions the opaque fn-pointer stand-ins declared non-positive
    u.emit_raw("#[verifier::reject_recursive_types(T)]\n" + st.text, {"kind": "repo", "file": st.file, "line": st.line})
    u.rw.count("R9")
    # the impl block of UnaryOp: only the methods Verus can accept are kept (apply, remove_latest, len); `apply`
    # is hoisted to a free function (R5: the `.iter().rev()` loop's built-in invariant fails inside a method)
    imp, _ = ops.cut(r"^impl<T> UnaryOp<T>\s*\nwhere\s*\n\s*T: Clone,", "impl UnaryOp")
    imp = imp.clone(strip_attrs(imp.text))
    imp_text, free = weave_block(u, imp, "impl UnaryOp", "UnaryOp", hoist=["apply"], hoist_prefix="unaryop", self_ty="UnaryOp<T>",
                                 only=["apply", "remove_latest", "len"], free_generics="<T: Clone>")
    u.emit_raw(imp_text, {"kind": "repo", "file": imp.file, "line": imp.line})
    for piece, free_name, text in free:
        u.emit_fn(piece, free_name, text=text, woven_as=free_name)
    ob, _ = ops.cut(r"^pub trait OperateBinary<T>", "trait OperateBinary")
    ob_text, _ = weave_block(u, ob, "trait OperateBinary", "OperateBinary")
    u.emit_raw(ob_text, {"kind": "repo", "file": ob.file, "line": ob.line})
    u.emit_text("binop stub")
    fo, _ = flat.cut(r"^    pub struct FlatOp<T: Clone>", "struct FlatOp")
    u.emit_raw("#[verifier::reject_recursive_types(T)]\n" + strip_attrs(fo.text).lstrip(), {"kind": "repo", "file": fo.file, "line": fo.line})
    u.rw.count("R9")
    fimpl, _ = flat.cut(r"^    impl<T: Clone> OperateBinary<T> for FlatOp<T>", "impl OperateBinary for FlatOp")
    ftext, _ = weave_block(u, fimpl, "impl FlatOp", "OperateBinary", self_ty="FlatOp<T>")
    u.emit_raw(ftext, {"kind": "repo", "file": fimpl.file, "line": fimpl.line})
    u.emit_text("epilogue")
    return u, u.finish()


UNITS = {"u123": build_u123, "u4": build_u4}

if __name__ == "__main__":
    import argparse
    ap = argparse.ArgumentParser()
    ap.add_argument("unit")
    ap.add_argument("--repo", default="/repo")
    ap.add_argument("--canary", default=None)
    ap.add_argument("-o", "--out", default=None)
    a = ap.parse_args()
    try:
        u, text = UNITS[a.unit](a.repo, a.canary)
    except WeaveError as e:
        print("WEAVE-ERROR: %s" % e, file=sys.stderr)
        sys.exit(2)
    if a.out:
        open(a.out, "w").write(text)
    else:
        sys.stdout.write(text)
    print("rewrites: %s" % u.rw.hits, file=sys.stderr)
    print("functions: %d" % len(u.functions), file=sys.stderr)
