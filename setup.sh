#!/bin/bash
# Offline setup: pre-build the native replay driver and the Kani harness crate so the first check
# does not pay for compiling the dependencies.  Everything is rebuilt from /repo by the checks anyway.
set -u
cd "$(dirname "$0")"
export CARGO_NET_OFFLINE=true
mkdir -p .build evidence replays
( cd replay && RUSTFLAGS="--cfg exmex_verif" CARGO_TARGET_DIR=../.build/native-target cargo build --offline --quiet ) || echo "setup: native replay build failed (checks will retry)"
( cd replay && RUSTFLAGS="--cfg exmex_verif" CARGO_TARGET_DIR=../.build/native-target cargo build --release --offline --quiet ) || echo "setup: native replay build (release profile) failed (checks will retry)"
( cd kani && RUSTFLAGS="--cfg exmex_verif" cargo kani -Z stubbing --only-codegen --target-dir ../.build/kani-target >/dev/null 2>&1 ) || echo "setup: kani pre-build failed (checks will retry)"
verus --version >/dev/null 2>&1 || echo "setup: verus not on PATH"
exit 0
