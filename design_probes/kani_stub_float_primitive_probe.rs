use num::Float;
pub fn table_sin<T: Float>(a: T) -> T { a.sin() }
pub fn table_cos<T: Float>(a: T) -> T { a.cos() }
#[cfg(kani)]
mod proofs {
    fn sin_stub(x: f64) -> f64 { f64::from_bits(x.to_bits() ^ 0x1111) }
    fn cos_stub(x: f64) -> f64 { f64::from_bits(x.to_bits() ^ 0x2222) }
    #[kani::proof]
    #[kani::stub(f64::sin, sin_stub)]
    #[kani::stub(f64::cos, cos_stub)]
    fn t_sin() {
        let a: f64 = kani::any();
        assert!(super::table_sin(a).to_bits() == sin_stub(a).to_bits());
    }
    #[kani::proof]
    #[kani::stub(f64::sin, sin_stub)]
    #[kani::stub(f64::cos, cos_stub)]
    fn t_cos_wrong() {
        let a: f64 = kani::any();
        assert!(super::table_cos(a).to_bits() == sin_stub(a).to_bits());
    }
}
