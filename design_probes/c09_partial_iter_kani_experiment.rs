//! C09 — experiment (thorough tier only, may not terminate): index validation of
//! `Differentiate::partial_iter` on a one-node FlatEx over two variables — an out-of-range index at
//! either position is an error.
#[allow(unused_imports)]
use crate::src::Src;
use exmex::prelude::*;
use exmex::verif_hooks::*;
use exmex::FlatEx;
use smallvec::smallvec;

harness!(partial_iter_validation, unwind = 45, |s| {
    let i0 = s.choice(4) as usize;
    let i1 = s.choice(4) as usize;
    let nodes = smallvec![FlatNode { kind: FlatNodeKind::Var(0), unary_op: UnaryOp::new() }];
    let ex: FlatEx<f64> = FlatEx::new(nodes, smallvec![], smallvec![], smallvec![String::new(), String::new()], String::new());
    let r = ex.partial_iter([i0, i1].into_iter());
    assert!(r.is_err() == (i0 >= 2 || i1 >= 2), "C09 an index not smaller than the number of variables is an error, for iterated differentiation alike");
    core::mem::forget(r);
});

registry!("c09", partial_iter_validation);
