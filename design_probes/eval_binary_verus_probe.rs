use vstd::prelude::*;
use std::mem;
verus! {

pub uninterp spec fn spec_default<T>() -> T;
pub assume_specification<T: Default>[ core::mem::take::<T> ](dest: &mut T) -> (r: T)
    ensures r == *old(dest), *final(dest) == spec_default::<T>();

pub trait OperateBinary<T> {
    spec fn ap(&self, x: T, y: T) -> T;
    fn apply(&self, x: T, y: T) -> (r: T)
        ensures r == self.ap(x, y);
}
pub trait NumberTracker {
    spec fn ign(&self, i: int) -> bool;
    spec fn cap(&self) -> int;

    fn get_previous(&self, idx: usize) -> (r: usize)
        requires idx < self.cap(), !self.ign(0),
        ensures r <= idx, !self.ign(idx - r), forall|k: int| idx - r < k <= idx ==> self.ign(k);
    fn get_next(&self, idx: usize) -> (r: usize)
        requires idx < self.cap(), exists|j: int| idx < j < self.cap() && !self.ign(j),
        ensures r >= 1, idx + r < self.cap(), !self.ign(idx + r), forall|k: int| idx < k < idx + r ==> self.ign(k);
    fn ignore(&mut self, idx: usize)
        requires idx < old(self).cap(),
        ensures final(self).cap() == old(self).cap(),
            forall|k: int| final(self).ign(k) == (old(self).ign(k) || k == idx);
    fn consume_next(&mut self, idx: usize) -> (r: usize)
        requires idx < old(self).cap(), exists|j: int| idx < j < old(self).cap() && !old(self).ign(j), old(self).cap() <= usize::MAX,
        ensures r >= 1, idx + r < old(self).cap(), !old(self).ign(idx + r),
            forall|k: int| idx < k < idx + r ==> old(self).ign(k),
            final(self).cap() == old(self).cap(),
            forall|k: int| final(self).ign(k) == (old(self).ign(k) || k == idx + r),
    {
        let next = self.get_next(idx);
        self.ignore(idx + next);
        next
    }
    fn max_len(&self) -> (r: usize) ensures r == self.cap();
}

pub open spec fn live_left<T>(st: Seq<Option<T>>, k: int) -> int
    decreases k
{
    if k <= 0 { 0 } else if st[k] is Some { k } else { live_left(st, k - 1) }
}
pub open spec fn live_right<T>(st: Seq<Option<T>>, k: int) -> int
    decreases st.len() - k
{
    if k + 1 >= st.len() { k + 1 } else if st[k + 1] is Some { k + 1 } else { live_right(st, k + 1) }
}
pub open spec fn step<T, O: OperateBinary<T>>(st: Seq<Option<T>>, ops: Seq<O>, k: int) -> Seq<Option<T>> {
    let l = live_left(st, k);
    let r = live_right(st, k);
    st.update(l, Some(ops[k].ap(st[l].unwrap(), st[r].unwrap()))).update(r, None)
}
pub open spec fn run<T, O: OperateBinary<T>>(st: Seq<Option<T>>, ops: Seq<O>, order: Seq<usize>) -> Seq<Option<T>>
    decreases order.len()
{
    if order.len() == 0 { st } else { step(run(st, ops, order.drop_last()), ops, order.last() as int) }
}
pub open spec fn all_some<T>(s: Seq<T>) -> Seq<Option<T>> {
    Seq::new(s.len(), |i: int| Some(s[i]))
}

pub open spec fn applied(order: Seq<usize>, i: int, m: int) -> bool {
    exists|t: int| 0 <= t < i && order[t] == m
}
proof fn lemma_live_left<T>(st: Seq<Option<T>>, k: int, l: int)
    requires 0 <= l <= k < st.len(), st[l] is Some, forall|m: int| l < m <= k ==> st[m] is None,
    ensures live_left(st, k) == l,
    decreases k - l
{
    if k > l { lemma_live_left(st, k - 1, l); }
}
pub open spec fn inv<T, O: OperateBinary<T>, N: NumberTracker + ?Sized>(init: Seq<T>, numbers: Seq<T>, ops: Seq<O>, order: Seq<usize>, i: int, tracker: &N) -> bool {
    let st = run(all_some(init), ops, order.take(i));
    &&& st.len() == init.len()
    &&& numbers.len() == init.len()
    &&& forall|j: int| 0 <= j < st.len() ==> (tracker.ign(j) <==> st[j] is None)
    &&& forall|j: int| 0 <= j < st.len() ==> (st[j] is None <==> (j >= 1 && applied(order, i, j - 1)))
    &&& forall|j: int| 0 <= j < st.len() && st[j] is Some ==> numbers[j] == st[j].unwrap()
}
pub fn eval_binary<T, O, N>(
    numbers: &mut [T],
    binary_ops: &[O],
    prio_indices: &[usize],
    tracker: &mut N,
) -> (res: T)
where
    T: Clone + Default,
    O: OperateBinary<T>,
    N: NumberTracker + ?Sized,
    requires
        old(numbers).len() == binary_ops.len() + 1,
        prio_indices.len() == binary_ops.len(),
        old(tracker).cap() >= old(numbers).len(), old(tracker).cap() <= usize::MAX,
        forall|k: int| !old(tracker).ign(k),
        forall|i: int| 0 <= i < prio_indices.len() ==> prio_indices[i] < binary_ops.len(),
        forall|i: int, j: int| 0 <= i < j < prio_indices.len() ==> prio_indices[i] != prio_indices[j],
    ensures
        res == run(all_some(old(numbers)@), binary_ops@, prio_indices@)[0].unwrap(),
{
    let ghost init = numbers@;
    let ghost cap0 = tracker.cap();
    proof {
        assert(prio_indices@.take(0) =~= Seq::<usize>::empty());
    }
    for idx_ref in it: prio_indices.iter()
        invariant
            init.len() == binary_ops.len() + 1,
            prio_indices.len() == binary_ops.len(),
            tracker.cap() == cap0, cap0 >= init.len(), cap0 <= usize::MAX,
            forall|i: int| 0 <= i < prio_indices.len() ==> prio_indices[i] < binary_ops.len(),
            forall|i: int, j: int| 0 <= i < j < prio_indices.len() ==> prio_indices[i] != prio_indices[j],
            0 <= it.index@ <= prio_indices.len(),
            inv(init, numbers@, binary_ops@, prio_indices@, it.index@ as int, &*tracker),
    { let idx = *idx_ref;
        let ghost i = it.index@ as int;
        let ghost st = run(all_some(init), binary_ops@, prio_indices@.take(i));
        proof {
            assert(idx == prio_indices@[i]);
            assert(!applied(prio_indices@, i, idx as int));
            assert(st[idx + 1] is Some);
            assert(st[0] is Some);
            assert(!tracker.ign(idx + 1));
            assert(!tracker.ign(0));
            assert(idx < idx + 1 < tracker.cap() && !tracker.ign(idx + 1));
        }
        let ghost tr0_ign = |k: int| tracker.ign(k);
        let shift_left = tracker.get_previous(idx);
        proof {
            assert forall|m: int| idx - shift_left < m <= idx implies st[m] is None by { assert(tracker.ign(m)); }
            assert(st[idx - shift_left] is Some);
        }
        let shift_right = tracker.consume_next(idx);

        proof {
            if shift_right > 1 { assert(tr0_ign(idx + 1)); }
            assert(shift_right == 1);
            lemma_live_left(st, idx as int, idx - shift_left);
        }
        let num_1_idx = idx - shift_left;
        let num_2_idx = idx + shift_right;

        numbers[num_1_idx] = binary_ops[idx].apply(
            mem::take(&mut numbers[num_1_idx]),
            mem::take(&mut numbers[num_2_idx]),
        );
        proof {
            let order = prio_indices@;
            assert(order.take(i + 1).drop_last() =~= order.take(i));
            assert(order.take(i + 1).last() == idx);
            let st2 = run(all_some(init), binary_ops@, order.take(i + 1));
            assert(st2 == step(st, binary_ops@, idx as int));
            assert(live_right(st, idx as int) == idx + 1);
            assert forall|j: int| 0 <= j < st2.len() implies (st2[j] is None <==> (j >= 1 && applied(order, i + 1, j - 1))) by {
                if j >= 1 && applied(order, i, j - 1) {
                    let t = choose|t: int| 0 <= t < i && order[t] == j - 1;
                    assert(0 <= t < i + 1 && order[t] == j - 1);
                }
                if j == idx + 1 { assert(order[i] == j - 1); }
                if j >= 1 && applied(order, i + 1, j - 1) {
                    let t = choose|t: int| 0 <= t < i + 1 && order[t] == j - 1;
                    if t < i { assert(applied(order, i, j - 1)); }
                }
            }
        }
    }
    proof {
        assert(prio_indices@.take(prio_indices.len() as int) =~= prio_indices@);
    }
    mem::take(&mut numbers[0])
}

} // verus!
fn main() {}
