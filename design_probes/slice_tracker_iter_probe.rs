use vstd::prelude::*;
verus! {
pub uninterp spec fn spec_lo(x: usize) -> u32;
pub assume_specification[ usize::leading_ones ](x: usize) -> (r: u32)
    ensures r == spec_lo(x), r <= 64;
pub trait NumberTracker {
    fn get_previous(&self, idx: usize) -> usize;
    fn max_len(&self) -> usize;
}
impl NumberTracker for usize {
    fn get_previous(&self, idx: usize) -> usize { 0 }
    fn max_len(&self) -> usize {
        Self::BITS as usize
    }
}
impl NumberTracker for [usize] {
    fn get_previous(&self, idx: usize) -> usize {
        let segment = idx / (usize::BITS as usize);
        let bit = idx % usize::BITS as usize;

        // use the single usize fast path which might lead to synergies with `get_next`
        let mut ones = self[segment].get_previous(bit).min(bit + 1);

        if ones == bit + 1 {
            for word_ref in self[..segment].iter().rev() { let word = *word_ref;
                if word == usize::MAX {
                    ones += 64;
                } else {
                    ones += word.leading_ones() as usize;
                    break;
                }
            }
        }
        ones
    }
    fn max_len(&self) -> usize {
        self.len() * usize::BITS as usize
    }
}
}
fn main() {}
