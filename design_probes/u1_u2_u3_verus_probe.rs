use vstd::prelude::*;
use std::mem;
verus! {

global size_of usize == 8;

pub open spec fn vbit(w: usize, i: int) -> bool {
    0 <= i < 64 && ((w >> (i as usize)) & 1usize) == 1usize
}

pub assume_specification[ usize::rotate_right ](x: usize, n: u32) -> (r: usize)
    ensures forall|i: int| 0 <= i < 64 ==> #[trigger] vbit(r, i) == vbit(x, (i + n as int) % 64);
pub assume_specification[ usize::leading_ones ](x: usize) -> (r: u32)
    ensures r <= 64,
        forall|j: int| 63 - r < j <= 63 ==> vbit(x, j),
        r < 64 ==> !vbit(x, 63 - r as int),
        (r == 64) == (x == usize::MAX);
pub assume_specification[ usize::trailing_ones ](x: usize) -> (r: u32)
    ensures r <= 64,
        forall|j: int| 0 <= j < r ==> vbit(x, j),
        r < 64 ==> !vbit(x, r as int),
        (r == 64) == (x == usize::MAX);

proof fn lemma_bit_set(w: usize, i: usize)
    requires i < 64
    ensures forall|j: int| 0 <= j < 64 ==> #[trigger] vbit((w | (1usize << i)) as usize, j) == (vbit(w, j) || j == i),
{
    assert forall|j: int| 0 <= j < 64 implies #[trigger] vbit((w | (1usize << i)) as usize, j) == (vbit(w, j) || j == i) by {
        let ju = j as usize;
        assert((((w | (1usize << i)) >> ju) & 1usize == 1usize) == (((w >> ju) & 1usize == 1usize) || ju == i)) by(bit_vector)
            requires i < 64, ju < 64;
    }
}
proof fn lemma_zero_bits()
    ensures forall|j: int| !vbit(0usize, j),
{
    assert forall|j: int| !vbit(0usize, j) by {
        if 0 <= j < 64 {
            let ju = j as usize;
            assert((0usize >> ju) & 1usize == 0usize) by(bit_vector) requires ju < 64;
        }
    }
}
proof fn lemma_max_bits(w: usize)
    ensures w == usize::MAX ==> (forall|j: int| 0 <= j < 64 ==> #[trigger] vbit(w, j)),
{
    if w == usize::MAX {
        assert forall|j: int| 0 <= j < 64 implies #[trigger] vbit(w, j) by {
            let ju = j as usize;
            assert((w >> ju) & 1usize == 1usize) by(bit_vector) requires w == 0xffff_ffff_ffff_ffffusize, ju < 64;
        }
    }
}


fn word_get_previous(self_: &usize, idx: usize) -> (r: usize)
    requires idx < 64,
    ensures forall|k: int| idx - r < k <= idx && 0 <= k ==> vbit(*self_, k), r <= idx ==> !vbit(*self_, idx - r),
{
        let rotated = self_.rotate_right(idx as u32 + 1);
        proof {
            assert forall|k: int| 0 <= k <= idx implies vbit(rotated, 63 - (idx - k)) == vbit(*self_, k) by {
                assert((63 - (idx - k) + (idx as u32 + 1) as int) % 64 == k);
            }
        }
        rotated.leading_ones() as usize
    }
fn word_get_next(self_: &usize, idx: usize) -> (r: usize)
    requires idx < 64,
    ensures r >= 1, r <= 65, forall|k: int| idx < k < idx + r && k < 64 ==> vbit(*self_, k), idx + r < 64 ==> !vbit(*self_, idx + r),
{
        let rotated = self_.rotate_right(idx as u32 + 1);
        proof {
            assert forall|k: int| idx < k < 64 implies vbit(rotated, k - idx - 1) == vbit(*self_, k) by {
                assert((k - idx - 1 + (idx as u32 + 1) as int) % 64 == k);
            }
        }
        rotated.trailing_ones() as usize + 1
    }
pub trait NumberTracker {
    spec fn ign(&self, i: int) -> bool;
    spec fn cap(&self) -> int;

    fn get_previous(&self, idx: usize) -> (r: usize)
        requires idx < self.cap(), self.cap() <= usize::MAX,
        ensures
            forall|k: int| idx - r < k <= idx && 0 <= k ==> self.ign(k),
            r <= idx ==> !self.ign(idx - r);

    fn get_next(&self, idx: usize) -> (r: usize)
        requires idx < self.cap(), self.cap() <= usize::MAX,
        ensures
            r >= 1, idx + r <= usize::MAX,
            forall|k: int| idx < k < idx + r && k < self.cap() ==> self.ign(k),
            idx + r < self.cap() ==> !self.ign(idx + r);

    fn ignore(&mut self, idx: usize)
        requires idx < old(self).cap(),
        ensures final(self).cap() == old(self).cap(),
            forall|k: int| final(self).ign(k) == (old(self).ign(k) || k == idx);

    #[inline(always)]
    fn consume_next(&mut self, idx: usize) -> (r: usize)
        requires idx < old(self).cap(), old(self).cap() <= usize::MAX,
            exists|j: int| idx < j < old(self).cap() && !old(self).ign(j),
        ensures r >= 1, idx + r < old(self).cap(), !old(self).ign(idx + r),
            forall|k: int| idx < k < idx + r ==> old(self).ign(k),
            final(self).cap() == old(self).cap(),
            forall|k: int| final(self).ign(k) == (old(self).ign(k) || k == idx + r),
    {
        let next = self.get_next(idx);
        self.ignore(idx + next);
        next
    }

    fn max_len(&self) -> (r: usize)
        requires self.cap() <= usize::MAX,
        ensures r == self.cap();
}

impl NumberTracker for usize {
    open spec fn ign(&self, i: int) -> bool { vbit(*self, i) }
    open spec fn cap(&self) -> int { 64 }

    #[inline(always)]
    fn get_previous(&self, idx: usize) -> usize { word_get_previous(self, idx) }

    #[inline(always)]
    fn get_next(&self, idx: usize) -> usize { word_get_next(self, idx) }

    #[inline(always)]
    fn ignore(&mut self, idx: usize) {
        proof { lemma_bit_set(*self, idx); }
        *self |= 1 << idx;
    }

    fn max_len(&self) -> usize {
        Self::BITS as usize
    }
}

pub open spec fn s_ign(s: Seq<usize>, i: int) -> bool { 0 <= i < 64 * (s.len() as int) && vbit(s[i / 64], i % 64) }
fn slice_get_previous(self_: &[usize], idx: usize) -> (r: usize)
    requires idx < 64 * self_@.len(), 64 * self_@.len() <= usize::MAX,
    ensures
        forall|k: int| idx - r < k <= idx && 0 <= k ==> s_ign(self_@, k),
        r <= idx ==> !s_ign(self_@, idx - r),
{
        let segment = idx / (usize::BITS as usize);
        let bit = idx % usize::BITS as usize;

        // use the single usize fast path which might lead to synergies with `get_next`
        let mut ones = word_get_previous(&self_[segment], bit).min(bit + 1);
        proof {
            assert forall|k: int| idx - ones < k <= idx && 0 <= k implies s_ign(self_@, k) by {
                assert(k / 64 == segment as int && k % 64 == bit - (idx - k));
                assert(vbit(self_@[segment as int], k % 64));
            }
            if ones <= bit { assert(!vbit(self_@[segment as int], bit - ones)); assert((idx - ones) / 64 == segment as int && (idx - ones) % 64 == bit - ones); }
        }

        if ones == bit + 1 {
            proof { assert(segment < self_@.len()); assert(ones <= idx + 1); }
            for word_ref in it: self_[..segment].iter().rev()
                invariant_except_break
                    ones == bit + 1 + 64 * it.index@,
                invariant
                    segment == idx / 64, bit == idx % 64, segment < self_@.len(), 64 * self_@.len() <= usize::MAX,
                    it.index@ <= segment,
                    ones <= idx + 1,
                    forall|k: int| idx - ones < k <= idx && 0 <= k ==> s_ign(self_@, k),
                ensures
                    ones <= idx ==> !s_ign(self_@, idx - ones),
            { let word = *word_ref;
                let ghost w_i = segment - 1 - it.index@;
                proof { assert(word == self_@[w_i]); }
                if word == usize::MAX {
                    proof {
                        lemma_max_bits(word);
                        assert forall|k: int| idx - (ones + 64) < k <= idx - ones && 0 <= k implies s_ign(self_@, k) by {
                            assert(k / 64 == w_i);
                        }
                    }
                    ones += 64;
                } else {
                    let lo = word.leading_ones() as usize;
                    proof {
                        assert(lo < 64);
                        assert forall|k: int| idx - (ones + lo) < k <= idx - ones && 0 <= k implies s_ign(self_@, k) by {
                            assert(k / 64 == w_i);
                            assert(k % 64 > 63 - lo);
                        }
                        assert((idx - (ones + lo)) / 64 == w_i && (idx - (ones + lo)) % 64 == 63 - lo);
                    }
                    ones += lo;
                    break;
                }
            }
        }
        ones
    }


fn slice_get_next(self_: &[usize], idx: usize) -> (r: usize)
    requires idx < 64 * self_@.len(), 64 * self_@.len() <= usize::MAX,
    ensures
        r >= 1, idx + r <= usize::MAX,
        forall|k: int| idx < k < idx + r && k < 64 * self_@.len() ==> s_ign(self_@, k),
        idx + r < 64 * self_@.len() ==> !s_ign(self_@, idx + r),
{
        let segment = idx / usize::BITS as usize;
        let bit = idx % usize::BITS as usize;

        // use the single usize fast path which might lead to synergies with `get_previous`
        let mut ones = word_get_next(&self_[segment], bit).min(usize::BITS as usize - bit);
        proof {
            assert forall|k: int| idx < k < idx + ones && k < 64 * self_@.len() implies s_ign(self_@, k) by {
                assert(k / 64 == segment as int && k % 64 == bit + (k - idx));
                assert(vbit(self_@[segment as int], k % 64));
            }
            if ones < 64 - bit { assert(!vbit(self_@[segment as int], bit + ones)); assert((idx + ones) / 64 == segment as int && (idx + ones) % 64 == bit + ones); }
        }

        if ones == usize::BITS as usize - bit {
            for word_ref in it: self_[segment..].iter().skip(1)
                invariant_except_break
                    ones == 64 - bit + 64 * it.index@,
                invariant
                    segment == idx / 64, bit == idx % 64, segment < self_@.len(), 64 * self_@.len() <= usize::MAX,
                    segment + 1 + it.index@ <= self_@.len() || ones < 64 * self_@.len() - idx,
                    idx + ones <= 64 * self_@.len(),
                    ones >= 1,
                    forall|k: int| idx < k < idx + ones && k < 64 * self_@.len() ==> s_ign(self_@, k),
                ensures
                    idx + ones < 64 * self_@.len() ==> !s_ign(self_@, idx + ones),
            { let word = *word_ref;
                let ghost w_i = segment + 1 + it.index@;
                proof { assert(word == self_@[w_i]); }
                if word == usize::MAX {
                    proof {
                        lemma_max_bits(word);
                        assert forall|k: int| idx + ones <= k < idx + ones + 64 implies s_ign(self_@, k) by {
                            assert(k / 64 == w_i);
                        }
                    }
                    ones += 64;
                } else {
                    let to = word.trailing_ones() as usize;
                    proof {
                        assert(to < 64);
                        assert forall|k: int| idx + ones <= k < idx + ones + to implies s_ign(self_@, k) by {
                            assert(k / 64 == w_i);
                            assert(k % 64 < to);
                        }
                        assert((idx + ones + to) / 64 == w_i && (idx + ones + to) % 64 == to);
                    }
                    ones += to;
                    break;
                }
            }
        }
        ones
}

fn slice_ignore(self_: &mut [usize], idx: usize)
    requires idx < 64 * old(self_)@.len(),
    ensures final(self_)@.len() == old(self_)@.len(),
        forall|k: int| s_ign(final(self_)@, k) == (s_ign(old(self_)@, k) || k == idx),
{
        let segment = idx / usize::BITS as usize;
        let bit = idx % usize::BITS as usize;
        proof { lemma_bit_set(self_@[segment as int], bit); }
        self_[segment] |= 1 << bit;
        proof {
            assert forall|k: int| s_ign(self_@, k) == (s_ign(old(self_)@, k) || k == idx) by {
                if 0 <= k < 64 * self_@.len() {
                    if k / 64 == segment { assert(k == idx <==> k % 64 == bit); } else { }
                }
            }
        }
}

impl NumberTracker for [usize] {
    open spec fn ign(&self, i: int) -> bool { s_ign(self@, i) }
    open spec fn cap(&self) -> int { 64 * (self@.len() as int) }
    #[verifier::external_body] fn get_previous(&self, idx: usize) -> usize { slice_get_previous(self, idx) }
    fn get_next(&self, idx: usize) -> usize { slice_get_next(self, idx) }
    fn ignore(&mut self, idx: usize) { slice_ignore(self, idx) }
    fn max_len(&self) -> usize {
        self.len() * usize::BITS as usize
    }
}
pub uninterp spec fn spec_default<T>() -> T;
pub assume_specification<T: Default>[ core::mem::take::<T> ](dest: &mut T) -> (r: T)
    ensures r == *old(dest), *final(dest) == spec_default::<T>();

pub trait OperateBinary<T> {
    spec fn ap(&self, x: T, y: T) -> T;
    fn apply(&self, x: T, y: T) -> (r: T)
        ensures r == self.ap(x, y);
}
pub open spec fn live_left<T>(st: Seq<Option<T>>, k: int) -> int
    decreases k
{
    if k <= 0 { 0 } else if st[k] is Some { k } else { live_left(st, k - 1) }
}
pub open spec fn live_right<T>(st: Seq<Option<T>>, k: int) -> int
    decreases st.len() - k
{
    if k + 1 >= st.len() { k + 1 } else if st[k + 1] is Some { k + 1 } else { live_right(st, k + 1) }
}
pub open spec fn step<T, O: OperateBinary<T>>(st: Seq<Option<T>>, ops: Seq<O>, k: int) -> Seq<Option<T>> {
    let l = live_left(st, k);
    let r = live_right(st, k);
    st.update(l, Some(ops[k].ap(st[l].unwrap(), st[r].unwrap()))).update(r, None)
}
pub open spec fn run<T, O: OperateBinary<T>>(st: Seq<Option<T>>, ops: Seq<O>, order: Seq<usize>) -> Seq<Option<T>>
    decreases order.len()
{
    if order.len() == 0 { st } else { step(run(st, ops, order.drop_last()), ops, order.last() as int) }
}
pub open spec fn all_some<T>(s: Seq<T>) -> Seq<Option<T>> {
    Seq::new(s.len(), |i: int| Some(s[i]))
}

pub open spec fn applied(order: Seq<usize>, i: int, m: int) -> bool {
    exists|t: int| 0 <= t < i && order[t] == m
}
proof fn lemma_live_left<T>(st: Seq<Option<T>>, k: int, l: int)
    requires 0 <= l <= k < st.len(), st[l] is Some, forall|m: int| l < m <= k ==> st[m] is None,
    ensures live_left(st, k) == l,
    decreases k - l
{
    if k > l { lemma_live_left(st, k - 1, l); }
}
pub open spec fn inv<T, O: OperateBinary<T>, N: NumberTracker + ?Sized>(init: Seq<T>, numbers: Seq<T>, ops: Seq<O>, order: Seq<usize>, i: int, tracker: &N) -> bool {
    let st = run(all_some(init), ops, order.take(i));
    &&& st.len() == init.len()
    &&& numbers.len() == init.len()
    &&& forall|j: int| 0 <= j < st.len() ==> (tracker.ign(j) <==> st[j] is None)
    &&& forall|j: int| 0 <= j < st.len() ==> (st[j] is None <==> (j >= 1 && applied(order, i, j - 1)))
    &&& forall|j: int| 0 <= j < st.len() && st[j] is Some ==> numbers[j] == st[j].unwrap()
}
pub fn eval_binary<T, O, N>(
    numbers: &mut [T],
    binary_ops: &[O],
    prio_indices: &[usize],
    tracker: &mut N,
) -> (res: T)
where
    T: Clone + Default,
    O: OperateBinary<T>,
    N: NumberTracker + ?Sized,
    requires
        old(numbers).len() == binary_ops.len() + 1,
        prio_indices.len() == binary_ops.len(),
        old(tracker).cap() >= old(numbers).len(), old(tracker).cap() <= usize::MAX,
        forall|k: int| !old(tracker).ign(k),
        forall|i: int| 0 <= i < prio_indices.len() ==> prio_indices[i] < binary_ops.len(),
        forall|i: int, j: int| 0 <= i < j < prio_indices.len() ==> prio_indices[i] != prio_indices[j],
    ensures
        res == run(all_some(old(numbers)@), binary_ops@, prio_indices@)[0].unwrap(),
{
    let ghost init = numbers@;
    let ghost cap0 = tracker.cap();
    proof {
        assert(prio_indices@.take(0) =~= Seq::<usize>::empty());
    }
    for idx_ref in it: prio_indices.iter()
        invariant
            init.len() == binary_ops.len() + 1,
            prio_indices.len() == binary_ops.len(),
            tracker.cap() == cap0, cap0 >= init.len(), cap0 <= usize::MAX,
            forall|i: int| 0 <= i < prio_indices.len() ==> prio_indices[i] < binary_ops.len(),
            forall|i: int, j: int| 0 <= i < j < prio_indices.len() ==> prio_indices[i] != prio_indices[j],
            0 <= it.index@ <= prio_indices.len(),
            inv(init, numbers@, binary_ops@, prio_indices@, it.index@ as int, &*tracker),
    { let idx = *idx_ref;
        let ghost i = it.index@ as int;
        let ghost st = run(all_some(init), binary_ops@, prio_indices@.take(i));
        proof {
            assert(idx == prio_indices@[i]);
            assert(!applied(prio_indices@, i, idx as int));
            assert(st[idx + 1] is Some);
            assert(st[0] is Some);
            assert(!tracker.ign(idx + 1));
            assert(!tracker.ign(0));
            assert(idx < idx + 1 < tracker.cap() && !tracker.ign(idx + 1));
        }
        let ghost tr0_ign = |k: int| tracker.ign(k);
        let shift_left = tracker.get_previous(idx);
        proof {
            assert forall|m: int| idx - shift_left < m <= idx implies st[m] is None by { assert(tracker.ign(m)); }
            assert(st[idx - shift_left] is Some);
        }
        let shift_right = tracker.consume_next(idx);

        proof {
            if shift_right > 1 { assert(tr0_ign(idx + 1)); }
            assert(shift_right == 1);
            lemma_live_left(st, idx as int, idx - shift_left);
        }
        let num_1_idx = idx - shift_left;
        let num_2_idx = idx + shift_right;

        numbers[num_1_idx] = binary_ops[idx].apply(
            mem::take(&mut numbers[num_1_idx]),
            mem::take(&mut numbers[num_2_idx]),
        );
        proof {
            let order = prio_indices@;
            assert(order.take(i + 1).drop_last() =~= order.take(i));
            assert(order.take(i + 1).last() == idx);
            let st2 = run(all_some(init), binary_ops@, order.take(i + 1));
            assert(st2 == step(st, binary_ops@, idx as int));
            assert(live_right(st, idx as int) == idx + 1);
            assert forall|j: int| 0 <= j < st2.len() implies (st2[j] is None <==> (j >= 1 && applied(order, i + 1, j - 1))) by {
                if j >= 1 && applied(order, i, j - 1) {
                    let t = choose|t: int| 0 <= t < i && order[t] == j - 1;
                    assert(0 <= t < i + 1 && order[t] == j - 1);
                }
                if j == idx + 1 { assert(order[i] == j - 1); }
                if j >= 1 && applied(order, i + 1, j - 1) {
                    let t = choose|t: int| 0 <= t < i + 1 && order[t] == j - 1;
                    if t < i { assert(applied(order, i, j - 1)); }
                }
            }
        }
    }
    proof {
        assert(prio_indices@.take(prio_indices.len() as int) =~= prio_indices@);
    }
    mem::take(&mut numbers[0])
}


fn eval_numbers<T: Clone + Default, O: OperateBinary<T>>(
    numbers: &mut Vec<T>,
    ops: &[O],
    prio_indices: &[usize],
) -> (res: T)
    requires
        old(numbers).len() == ops.len() + 1,
        old(numbers).len() < usize::MAX - 64,
        prio_indices.len() == ops.len(),
        forall|i: int| 0 <= i < prio_indices.len() ==> prio_indices[i] < ops.len(),
        forall|i: int, j: int| 0 <= i < j < prio_indices.len() ==> prio_indices[i] != prio_indices[j],
    ensures
        res == run(all_some(old(numbers)@), ops@, prio_indices@)[0].unwrap(),
{
    if numbers.len() <= usize::max_len(&0) {
        let mut ignore = 0;
        proof { lemma_zero_bits(); }
        eval_binary(numbers.as_mut_slice(), ops, prio_indices, &mut ignore)
    } else {
        let mut ignore: Vec<usize> = vec![0; 1 + numbers.len() / usize::BITS as usize];
        proof {
            lemma_zero_bits();
            assert forall|k: int| !s_ign(ignore@, k) by { if 0 <= k < 64 * ignore@.len() { assert(ignore@[k / 64] == 0usize); } }
        }
        eval_binary(numbers.as_mut_slice(), ops, prio_indices, ignore.as_mut_slice())
    }
}

} // verus!
fn main() {}
