#[cfg(kani)]
mod proofs {
    use exmex::verif_hooks::*;
    use exmex::*;
    fn stub_format(_args: std::fmt::Arguments<'_>) -> String { String::new() }
    fn f(a: i32, _b: i32) -> i32 { a }
    const N: usize = 3;

    struct In { prio: [i64; N], idx: [usize; N], comm: [bool; N], lit: [bool; N + 1] }

    fn input() -> (In, [FlatOp<i32>; N], [FlatNode<i32>; N + 1]) {
        // a symbolic 3-entry operator table: (base priority, commutative flag)
        let tp: [u8; 3] = kani::any(); let tc: [bool; 3] = kani::any();
        for k in 0..3 { kani::assume(tp[k] <= 99); }
        let mut i = In { prio: [0; N], idx: [0; N], comm: [false; N], lit: [false; N + 1] };
        let mk = |k: usize| -> FlatOp<i32> { let _ = k; FlatOp { unary_op: UnaryOp::new(), bin_op: BinOpWithIdx { op: BinOp { apply: f, prio: 0, is_commutative: false }, idx: 0 } } };
        let mut ops = [mk(0), mk(1), mk(2)];
        for k in 0..N {
            let e: usize = kani::any(); kani::assume(e < 3);
            let d: u8 = kani::any(); kani::assume(d <= 2);
            i.idx[k] = e; i.comm[k] = tc[e]; i.prio[k] = tp[e] as i64 + 1000 * d as i64;
            ops[k].bin_op.idx = e; ops[k].bin_op.op.prio = i.prio[k]; ops[k].bin_op.op.is_commutative = tc[e];
        }
        let mkn = |lit: bool| FlatNode { kind: if lit { FlatNodeKind::Num(1) } else { FlatNodeKind::Var(0) }, unary_op: UnaryOp::new() };
        for k in 0..N + 1 { i.lit[k] = kani::any(); }
        let nodes = [mkn(i.lit[0]), mkn(i.lit[1]), mkn(i.lit[2]), mkn(i.lit[3])];
        (i, ops, nodes)
    }
    fn pos(order: &[usize], k: usize) -> usize { let mut p = 0; while p < order.len() { if order[p] == k { return p; } p += 1; } usize::MAX }

    #[kani::proof]
    #[kani::stub(std::fmt::format, stub_format)]
    #[kani::unwind(6)]
    fn order_basic() {
        let (i, ops, nodes) = input();
        let order = prioritized_indices_flat(&ops, &nodes);
        assert!(order.len() == N);
        for k in 0..N { assert!(pos(&order, k) < N); }                       // O-perm
        for a in 0..N { for b in 0..N { if i.prio[a] > i.prio[b] { assert!(pos(&order, a) < pos(&order, b)); } } } // O-desc
    }

    #[kani::proof]
    #[kani::stub(std::fmt::format, stub_format)]
    #[kani::unwind(6)]
    fn order_ltr() {
        let (i, ops, nodes) = input();
        let order = prioritized_indices_flat(&ops, &nodes);
        for b in 0..N { for a in 0..b {
            if i.prio[a] == i.prio[b] && pos(&order, b) < pos(&order, a) {
                // b overtook an equal-priority operator on its left: only AC-invisible regrouping allowed
                assert!(i.comm[b]);
                let mut j = b; let mut ok = true; let mut found = false;
                while j > 0 && !found { j -= 1; if i.prio[j] <= i.prio[b] { found = true; ok = i.prio[j] < i.prio[b] || i.idx[j] == i.idx[b]; } }
                assert!(ok);
            }
        } }
    }

    #[kani::proof]
    #[kani::stub(std::fmt::format, stub_format)]
    #[kani::unwind(6)]
    fn order_last() {
        let (i, ops, nodes) = input();
        let d: i64 = if kani::any() { 1000 } else { 2000 };
        let a: usize = kani::any(); let b: usize = kani::any();
        kani::assume(a <= b && b < N);
        for k in a..=b { kani::assume(i.prio[k] >= d); }
        kani::assume(a == 0 || i.prio[a - 1] < d);
        kani::assume(b == N - 1 || i.prio[b + 1] < d);
        // A-attach: right-most operator of minimal priority in the group
        let mut t = b; let mut k = b; while k > a { k -= 1; if i.prio[k] < i.prio[t] { t = k; } }
        let mut ops = ops;
        fn u(x: i32) -> i32 { x }
        ops[t].unary_op = UnaryOp::from_vec(smallvec::smallvec![UnaryFuncWithIdx { f: u as fn(i32) -> i32, idx: 9 }]);
        let order = prioritized_indices_flat(&ops, &nodes);
        for k in a..=b { if k != t { assert!(pos(&order, k) < pos(&order, t)); } }
    }
}
