#[cfg(kani)]
mod proofs {
    use exmex::verif_hooks::*;
    use exmex::*;
    fn stub_format(_args: std::fmt::Arguments<'_>) -> String { String::new() }
    fn any_scalar() -> Val<i32, f64> {
        let k: u8 = kani::any();
        match k { 0 => Val::Int(kani::any()), 1 => Val::Float(kani::any()), 2 => Val::Bool(kani::any()), 3 => Val::None, _ => Val::Error(ExError::new("e")) }
    }
    macro_rules! total1 { ($($h:ident: $f:ident),*) => { $(
        #[kani::proof] #[kani::stub(std::fmt::format, stub_format)] #[kani::unwind(16)]
        fn $h() { let r = $f(any_scalar()); core::mem::forget(r); }
    )* } }
    macro_rules! total2 { ($($h:ident: $f:ident),*) => { $(
        #[kani::proof] #[kani::stub(std::fmt::format, stub_format)] #[kani::unwind(16)]
        fn $h() { let r = $f(any_scalar(), any_scalar()); core::mem::forget(r); }
    )* } }
    total1!(t_minus: v_minus, t_abs: v_abs, t_to_int: v_to_int, t_fact: v_fact);
    total2!(t_rem: v_rem, t_add: v_add, t_pow: v_pow, t_shl: v_shl);
}
