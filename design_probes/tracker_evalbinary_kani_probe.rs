#[cfg(kani)]
mod proofs {
    use exmex::verif_hooks::*;
    use exmex::*;
    fn stub_format(_args: std::fmt::Arguments<'_>) -> String { String::new() }

    fn ign(ws: &[usize], i: usize) -> bool { (ws[i / 64] >> (i % 64)) & 1 == 1 }

    // slice tracker, 1..=3 symbolic words, symbolic idx: get_previous / get_next / ignore against the bit view
    #[kani::proof]
    #[kani::unwind(6)]
    fn slice_tracker_3w() {
        let mut ws: [usize; 3] = kani::any();
        let n: usize = kani::any(); kani::assume(n >= 1 && n <= 3);
        let cap = 64 * n;
        let idx: usize = kani::any(); kani::assume(idx < cap);
        let t: &mut [usize] = &mut ws[..n];
        let r = t.get_previous(idx);
        // all of (idx-r, idx] ignored, and idx-r live if r <= idx
        let k: usize = kani::any(); kani::assume(k <= idx && k + r > idx);
        assert!(ign(t, k));
        if r <= idx { assert!(!ign(t, idx - r)); } else { assert!(r == idx + 1); }
        let q = t.get_next(idx);
        assert!(q >= 1);
        let k2: usize = kani::any(); kani::assume(k2 > idx && k2 < idx + q && k2 < cap);
        assert!(ign(t, k2));
        if idx + q < cap { assert!(!ign(t, idx + q)); }
        let before = [t[0], if n > 1 { t[1] } else { 0 }, if n > 2 { t[2] } else { 0 }];
        t.ignore(idx);
        let k3: usize = kani::any(); kani::assume(k3 < cap);
        let was = (before[k3 / 64] >> (k3 % 64)) & 1 == 1;
        assert!(ign(t, k3) == (was || k3 == idx));
    }

    // eval_binary: all orders of n = 4 operators, operands are intervals, every apply checks adjacency
    #[derive(Clone, Default, PartialEq, Debug)]
    struct Seg { lo: u8, hi: u8, live: bool }
    struct Op { k: u8 }
    impl OperateBinary<Seg> for Op {
        fn apply(&self, a: Seg, b: Seg) -> Seg {
            assert!(a.live && b.live);
            assert!(a.hi == self.k && b.lo == self.k + 1);
            Seg { lo: a.lo, hi: b.hi, live: true }
        }
    }
    #[kani::proof]
    #[kani::unwind(7)]
    fn eval_binary_orders_4() {
        const N: usize = 4;
        let order: [usize; N] = kani::any();
        for i in 0..N { kani::assume(order[i] < N); for j in 0..i { kani::assume(order[i] != order[j]); } }
        let mut nums = [Seg { lo: 0, hi: 0, live: true }, Seg { lo: 1, hi: 1, live: true }, Seg { lo: 2, hi: 2, live: true }, Seg { lo: 3, hi: 3, live: true }, Seg { lo: 4, hi: 4, live: true }];
        let ops = [Op { k: 0 }, Op { k: 1 }, Op { k: 2 }, Op { k: 3 }];
        let mut tr: usize = 0;
        let r = eval_binary(&mut nums, &ops, &order, &mut tr);
        assert!(r == Seg { lo: 0, hi: 4, live: true });
    }

    #[kani::proof]
    #[kani::stub(std::fmt::format, stub_format)]
    fn partial_index() {
        let i: usize = kani::any(); let n: usize = kani::any();
        let r = check_partial_index(i, n, "");
        assert!(r.is_err() == (i >= n));
        core::mem::forget(r);
    }
}
