use vstd::prelude::*;
verus! {

global size_of usize == 8;

pub open spec fn vbit(w: usize, i: int) -> bool {
    0 <= i < 64 && ((w >> (i as usize)) & 1usize) == 1usize
}

pub assume_specification[ usize::rotate_right ](x: usize, n: u32) -> (r: usize)
    ensures forall|i: int| 0 <= i < 64 ==> #[trigger] vbit(r, i) == vbit(x, (i + n as int) % 64);
pub assume_specification[ usize::leading_ones ](x: usize) -> (r: u32)
    ensures r <= 64,
        forall|j: int| 63 - r < j <= 63 ==> vbit(x, j),
        r < 64 ==> !vbit(x, 63 - r as int),
        (r == 64) == (x == usize::MAX);
pub assume_specification[ usize::trailing_ones ](x: usize) -> (r: u32)
    ensures r <= 64,
        forall|j: int| 0 <= j < r ==> vbit(x, j),
        r < 64 ==> !vbit(x, r as int),
        (r == 64) == (x == usize::MAX);

proof fn lemma_bit_set(w: usize, i: usize)
    requires i < 64
    ensures forall|j: int| 0 <= j < 64 ==> #[trigger] vbit((w | (1usize << i)) as usize, j) == (vbit(w, j) || j == i),
{
    assert forall|j: int| 0 <= j < 64 implies #[trigger] vbit((w | (1usize << i)) as usize, j) == (vbit(w, j) || j == i) by {
        let ju = j as usize;
        assert((((w | (1usize << i)) >> ju) & 1usize == 1usize) == (((w >> ju) & 1usize == 1usize) || ju == i)) by(bit_vector)
            requires i < 64, ju < 64;
    }
}
proof fn lemma_max_bits(w: usize)
    ensures w == usize::MAX ==> (forall|j: int| 0 <= j < 64 ==> #[trigger] vbit(w, j)),
{
    if w == usize::MAX {
        assert forall|j: int| 0 <= j < 64 implies #[trigger] vbit(w, j) by {
            let ju = j as usize;
            assert((w >> ju) & 1usize == 1usize) by(bit_vector) requires w == 0xffff_ffff_ffff_ffffusize, ju < 64;
        }
    }
}

pub trait NumberTracker {
    spec fn ign(&self, i: int) -> bool;
    spec fn cap(&self) -> int;

    fn get_previous(&self, idx: usize) -> (r: usize)
        requires idx < self.cap(), self.cap() <= usize::MAX,
        ensures
            forall|k: int| idx - r < k <= idx && 0 <= k ==> self.ign(k),
            r <= idx ==> !self.ign(idx - r);

    fn get_next(&self, idx: usize) -> (r: usize)
        requires idx < self.cap(), self.cap() <= usize::MAX,
        ensures
            r >= 1, idx + r <= usize::MAX,
            forall|k: int| idx < k < idx + r && k < self.cap() ==> self.ign(k),
            idx + r < self.cap() ==> !self.ign(idx + r);

    fn ignore(&mut self, idx: usize)
        requires idx < old(self).cap(),
        ensures final(self).cap() == old(self).cap(),
            forall|k: int| final(self).ign(k) == (old(self).ign(k) || k == idx);

    #[inline(always)]
    fn consume_next(&mut self, idx: usize) -> (r: usize)
        requires idx < old(self).cap(), old(self).cap() <= usize::MAX,
            exists|j: int| idx < j < old(self).cap() && !old(self).ign(j),
        ensures r >= 1, idx + r < old(self).cap(), !old(self).ign(idx + r),
            forall|k: int| idx < k < idx + r ==> old(self).ign(k),
            final(self).cap() == old(self).cap(),
            forall|k: int| final(self).ign(k) == (old(self).ign(k) || k == idx + r),
    {
        let next = self.get_next(idx);
        self.ignore(idx + next);
        next
    }

    fn max_len(&self) -> (r: usize)
        requires self.cap() <= usize::MAX,
        ensures r == self.cap();
}

impl NumberTracker for usize {
    open spec fn ign(&self, i: int) -> bool { vbit(*self, i) }
    open spec fn cap(&self) -> int { 64 }

    #[inline(always)]
    fn get_previous(&self, idx: usize) -> usize {
        let rotated = self.rotate_right(idx as u32 + 1);
        proof {
            assert forall|k: int| 0 <= k <= idx implies vbit(rotated, 63 - (idx - k)) == vbit(*self, k) by {
                assert((63 - (idx - k) + (idx as u32 + 1) as int) % 64 == k);
            }
        }
        rotated.leading_ones() as usize
    }

    #[inline(always)]
    fn get_next(&self, idx: usize) -> usize {
        let rotated = self.rotate_right(idx as u32 + 1);
        proof {
            assert forall|k: int| idx < k < 64 implies vbit(rotated, k - idx - 1) == vbit(*self, k) by {
                assert((k - idx - 1 + (idx as u32 + 1) as int) % 64 == k);
            }
        }
        rotated.trailing_ones() as usize + 1
    }

    #[inline(always)]
    fn ignore(&mut self, idx: usize) {
        proof { lemma_bit_set(*self, idx); }
        *self |= 1 << idx;
    }

    fn max_len(&self) -> usize {
        Self::BITS as usize
    }
}

pub open spec fn s_ign(s: Seq<usize>, i: int) -> bool { 0 <= i < 64 * (s.len() as int) && vbit(s[i / 64], i % 64) }
fn slice_get_previous(self_: &[usize], idx: usize) -> (r: usize)
    requires idx < 64 * self_@.len(), 64 * self_@.len() <= usize::MAX,
    ensures
        forall|k: int| idx - r < k <= idx && 0 <= k ==> s_ign(self_@, k),
        r <= idx ==> !s_ign(self_@, idx - r),
{
        let segment = idx / (usize::BITS as usize);
        let bit = idx % usize::BITS as usize;

        // use the single usize fast path which might lead to synergies with `get_next`
        let mut ones = self_[segment].get_previous(bit).min(bit + 1);
        proof {
            assert forall|k: int| idx - ones < k <= idx && 0 <= k implies s_ign(self_@, k) by {
                assert(k / 64 == segment as int && k % 64 == bit - (idx - k));
                assert(self_@[segment as int].ign(k % 64));
            }
            if ones <= bit { assert(!self_@[segment as int].ign(bit - ones)); assert((idx - ones) / 64 == segment as int && (idx - ones) % 64 == bit - ones); }
        }

        if ones == bit + 1 {
            proof { assert(segment < self_@.len()); assert(ones <= idx + 1); }
            for word_ref in it: self_[..segment].iter().rev()
                invariant_except_break
                    ones == bit + 1 + 64 * it.index@,
                invariant
                    segment == idx / 64, bit == idx % 64, segment < self_@.len(), 64 * self_@.len() <= usize::MAX,
                    it.index@ <= segment,
                    ones <= idx + 1,
                    forall|k: int| idx - ones < k <= idx && 0 <= k ==> s_ign(self_@, k),
                ensures
                    ones <= idx ==> !s_ign(self_@, idx - ones),
            { let word = *word_ref;
                let ghost w_i = segment - 1 - it.index@;
                proof { assert(word == self_@[w_i]); }
                if word == usize::MAX {
                    proof {
                        lemma_max_bits(word);
                        assert forall|k: int| idx - (ones + 64) < k <= idx - ones && 0 <= k implies s_ign(self_@, k) by {
                            assert(k / 64 == w_i);
                        }
                    }
                    ones += 64;
                } else {
                    let lo = word.leading_ones() as usize;
                    proof {
                        assert(lo < 64);
                        assert forall|k: int| idx - (ones + lo) < k <= idx - ones && 0 <= k implies s_ign(self_@, k) by {
                            assert(k / 64 == w_i);
                            assert(k % 64 > 63 - lo);
                        }
                        assert((idx - (ones + lo)) / 64 == w_i && (idx - (ones + lo)) % 64 == 63 - lo);
                    }
                    ones += lo;
                    break;
                }
            }
        }
        ones
    }


fn slice_get_next(self_: &[usize], idx: usize) -> (r: usize)
    requires idx < 64 * self_@.len(), 64 * self_@.len() <= usize::MAX,
    ensures
        r >= 1, idx + r <= usize::MAX,
        forall|k: int| idx < k < idx + r && k < 64 * self_@.len() ==> s_ign(self_@, k),
        idx + r < 64 * self_@.len() ==> !s_ign(self_@, idx + r),
{
        let segment = idx / usize::BITS as usize;
        let bit = idx % usize::BITS as usize;

        // use the single usize fast path which might lead to synergies with `get_previous`
        let mut ones = self_[segment].get_next(bit).min(usize::BITS as usize - bit);
        proof {
            assert forall|k: int| idx < k < idx + ones && k < 64 * self_@.len() implies s_ign(self_@, k) by {
                assert(k / 64 == segment as int && k % 64 == bit + (k - idx));
                assert(self_@[segment as int].ign(k % 64));
            }
            if ones < 64 - bit { assert(!self_@[segment as int].ign(bit + ones)); assert((idx + ones) / 64 == segment as int && (idx + ones) % 64 == bit + ones); }
        }

        if ones == usize::BITS as usize - bit {
            for word_ref in it: self_[segment..].iter().skip(1)
                invariant_except_break
                    ones == 64 - bit + 64 * it.index@,
                invariant
                    segment == idx / 64, bit == idx % 64, segment < self_@.len(), 64 * self_@.len() <= usize::MAX,
                    segment + 1 + it.index@ <= self_@.len() || ones < 64 * self_@.len() - idx,
                    idx + ones <= 64 * self_@.len(),
                    ones >= 1,
                    forall|k: int| idx < k < idx + ones && k < 64 * self_@.len() ==> s_ign(self_@, k),
                ensures
                    idx + ones < 64 * self_@.len() ==> !s_ign(self_@, idx + ones),
            { let word = *word_ref;
                let ghost w_i = segment + 1 + it.index@;
                proof { assert(word == self_@[w_i]); }
                if word == usize::MAX {
                    proof {
                        lemma_max_bits(word);
                        assert forall|k: int| idx + ones <= k < idx + ones + 64 implies s_ign(self_@, k) by {
                            assert(k / 64 == w_i);
                        }
                    }
                    ones += 64;
                } else {
                    let to = word.trailing_ones() as usize;
                    proof {
                        assert(to < 64);
                        assert forall|k: int| idx + ones <= k < idx + ones + to implies s_ign(self_@, k) by {
                            assert(k / 64 == w_i);
                            assert(k % 64 < to);
                        }
                        assert((idx + ones + to) / 64 == w_i && (idx + ones + to) % 64 == to);
                    }
                    ones += to;
                    break;
                }
            }
        }
        ones
}

fn slice_ignore(self_: &mut [usize], idx: usize)
    requires idx < 64 * old(self_)@.len(),
    ensures final(self_)@.len() == old(self_)@.len(),
        forall|k: int| s_ign(final(self_)@, k) == (s_ign(old(self_)@, k) || k == idx),
{
        let segment = idx / usize::BITS as usize;
        let bit = idx % usize::BITS as usize;
        proof { lemma_bit_set(self_@[segment as int], bit); }
        self_[segment] |= 1 << bit;
        proof {
            assert forall|k: int| s_ign(self_@, k) == (s_ign(old(self_)@, k) || k == idx) by {
                if 0 <= k < 64 * self_@.len() {
                    if k / 64 == segment { assert(k == idx <==> k % 64 == bit); } else { }
                }
            }
        }
}

} // verus!
fn main() {}
