#[cfg(exmex_verif)]
#[doc(hidden)]
pub mod verif_hooks {
    use super::*;
    macro_rules! fwd1 { ($($n:ident => $f:ident),*) => { $(pub fn $n(a: Val<i32, f64>) -> Val<i32, f64> { super::$f(a) })* } }
    macro_rules! fwd2 { ($($n:ident => $f:ident),*) => { $(pub fn $n(a: Val<i32, f64>, b: Val<i32, f64>) -> Val<i32, f64> { super::$f(a, b) })* } }
    fwd1!(v_minus => minus, v_abs => abs, v_signum => signum, v_fact => fact, v_to_int => cast_to_int, v_to_float => cast_to_float);
    fwd2!(v_pow => pow, v_add => add, v_sub => sub, v_mul => mul, v_div => div, v_rem => rem, v_shl => left_shift, v_shr => right_shift);
}
