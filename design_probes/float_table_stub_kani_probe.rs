#[cfg(kani)]
mod proofs {
    use exmex::*;
    fn stub_format(_args: std::fmt::Arguments<'_>) -> String { String::new() }
    fn t1(x: f64, k: u64) -> f64 { f64::from_bits(x.to_bits() ^ k) }
    fn t2(x: f64, y: f64, k: u64) -> f64 { f64::from_bits(x.to_bits().rotate_left(7) ^ y.to_bits() ^ k) }
    fn s_sin(x: f64) -> f64 { t1(x, 0x11) } fn s_cos(x: f64) -> f64 { t1(x, 0x12) } fn s_tan(x: f64) -> f64 { t1(x, 0x13) }
    fn s_ln(x: f64) -> f64 { t1(x, 0x14) } fn s_exp(x: f64) -> f64 { t1(x, 0x15) } fn s_sqrt(x: f64) -> f64 { t1(x, 0x16) }
    fn s_powf(x: f64, y: f64) -> f64 { t2(x, y, 0x21) } fn s_atan2(x: f64, y: f64) -> f64 { t2(x, y, 0x22) }
    fn s_min(x: f64, y: f64) -> f64 { t2(x, y, 0x23) } fn s_max(x: f64, y: f64) -> f64 { t2(x, y, 0x24) }
    fn find<'a>(ops: &'a [Operator<'static, f64>], name: &str) -> &'a Operator<'static, f64> {
        let mut i = 0; while i < ops.len() { if ops[i].repr() == name { return &ops[i]; } i += 1; } panic!()
    }
    #[kani::proof]
    #[kani::stub(std::fmt::format, stub_format)]
    #[kani::stub(f64::sin, s_sin)] #[kani::stub(f64::cos, s_cos)] #[kani::stub(f64::tan, s_tan)]
    #[kani::stub(f64::ln, s_ln)] #[kani::stub(f64::exp, s_exp)] #[kani::stub(f64::sqrt, s_sqrt)]
    #[kani::stub(f64::powf, s_powf)] #[kani::stub(f64::atan2, s_atan2)] #[kani::stub(f64::min, s_min)] #[kani::stub(f64::max, s_max)]
    #[kani::unwind(45)]
    fn float_table_f64() {
        let ops = FloatOpsFactory::<f64>::make();
        let a: f64 = kani::any(); let b: f64 = kani::any();
        assert!((find(&ops, "sin").unary().unwrap())(a).to_bits() == s_sin(a).to_bits());
        assert!((find(&ops, "cos").unary().unwrap())(a).to_bits() == s_cos(a).to_bits());
        assert!((find(&ops, "log").unary().unwrap())(a).to_bits() == s_ln(a).to_bits());
        assert!((find(&ops, "exp").unary().unwrap())(a).to_bits() == s_exp(a).to_bits());
        assert!((find(&ops, "^").bin().unwrap().apply)(a, b).to_bits() == s_powf(a, b).to_bits());
        assert!((find(&ops, "atan2").bin().unwrap().apply)(a, b).to_bits() == s_atan2(a, b).to_bits());
        assert!((find(&ops, "min").bin().unwrap().apply)(a, b).to_bits() == s_min(a, b).to_bits());
    }
}
