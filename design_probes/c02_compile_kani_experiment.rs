//! C02 — experiment: constant folding (`FlatEx::compile`) is invisible on tiny expressions.
//! N nodes, each a symbolic literal-or-variable with optional unary function; N-1 operators with
//! symbolic priorities (two levels) and symbolic commutativity flag on an operator that really is
//! associative and commutative (wrapping addition) or not (the tagging function `pair`).
#[allow(unused_imports)]
use crate::src::Src;
use exmex::prelude::*;
use exmex::verif_hooks::*;
use exmex::{BinOp, FlatEx};
use smallvec::smallvec;

#[derive(Clone, Debug)]
pub struct NoOps;
impl exmex::MakeOperators<u32> for NoOps {
    fn make<'a>() -> Vec<exmex::Operator<'a, u32>> { vec![] }
}
fn add(a: u32, b: u32) -> u32 { a.wrapping_add(b) }
fn pair(a: u32, b: u32) -> u32 { a.wrapping_mul(31).wrapping_add(b.wrapping_mul(17)).wrapping_add(5) }
fn un(a: u32) -> u32 { a.wrapping_mul(3).wrapping_add(1) }

fn run<S: Src, const N: usize>(s: &mut S) {
    let x = s.u32();
    let mut nodes: smallvec::SmallVec<[FlatNode<u32>; N_NODES_ON_STACK]> = smallvec![];
    let mut ops: smallvec::SmallVec<[FlatOp<u32>; N_NODES_ON_STACK]> = smallvec![];
    for i in 0..N {
        let lit = s.bool();
        let v = s.u32();
        let has_un = s.bool();
        nodes.push(FlatNode { kind: if lit { FlatNodeKind::Num(v) } else { FlatNodeKind::Var(0) },
            unary_op: if has_un { UnaryOp::from_vec(smallvec![UnaryFuncWithIdx { f: un as fn(u32) -> u32, idx: 2 }]) } else { UnaryOp::new() } });
        if i + 1 < N {
            let is_add = s.bool();
            let prio = s.choice(2) as i64;
            ops.push(FlatOp { unary_op: UnaryOp::new(), bin_op: BinOpWithIdx { op: BinOp { apply: if is_add { add as fn(u32, u32) -> u32 } else { pair as fn(u32, u32) -> u32 }, prio, is_commutative: is_add }, idx: if is_add { 0 } else { 1 } } });
        }
    }
    let order = prioritized_indices_flat(&ops, &nodes);
    let mut ex: FlatEx<u32, NoOps> = FlatEx::new(nodes, ops, order, smallvec![String::new()], String::new());
    let before = ex.eval(&[x]);
    ex.compile();
    let after = ex.eval(&[x]);
    match (&before, &after) {
        (Ok(a), Ok(b)) => assert!(a == b, "C02 the folded expression denotes the same function as the unfolded one"),
        _ => assert!(false, "C02 evaluation succeeds before and after folding"),
    }
    core::mem::forget((before, after, ex));
}
harness!(compile_invisible_2, unwind = 8, |s| { run::<S, 2>(s) });
harness!(compile_invisible_3, unwind = 9, |s| { run::<S, 3>(s) });

registry!("c02", compile_invisible_2, compile_invisible_3);
