#!/bin/bash
# usage: run_seeds.sh <tier> <seed id>...   — apply each seeded patch to /repo, run the property's check, undo.
TIER="$1"; shift
cd /verif
for k in "$@"; do
  pid=${k%%_*}
  if ! git -C /repo diff --quiet; then echo "$k: /repo dirty, abort"; exit 9; fi
  git -C /repo apply /verif/seeded/$k/patch.diff || { echo "$k: patch does not apply"; continue; }
  t0=$(date +%s)
  ./check $pid --tier $TIER > /tmp/seedrun_${k}_$TIER.log 2>&1; rc=$?
  git -C /repo checkout -- .
  echo "$k tier=$TIER exit=$rc wall=$(( $(date +%s) - t0 ))s :: $(grep -c '^VIOLATION' /tmp/seedrun_${k}_$TIER.log) violations :: $(grep '^failed obligation' /tmp/seedrun_${k}_$TIER.log | head -2 | cut -c1-160 | tr '\n' '|')"
done
