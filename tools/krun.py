#!/usr/bin/env python3
"""ad-hoc: run the given Kani harnesses (or all of a module with prefix::*) and print a table"""
import sys, os, time
sys.path.insert(0, os.path.join(os.path.dirname(os.path.abspath(__file__)), "..", "lib"))
import kani_run, subprocess
args = sys.argv[1:]
timeout = 900
jobs = None
hs = []
for a in args:
    if a.startswith("--timeout="): timeout = int(a.split("=")[1])
    elif a.startswith("--jobs="): jobs = int(a.split("=")[1])
    elif a.endswith("::*"):
        out = subprocess.run([os.path.join(kani_run.BUILD, "native-target/debug/exmex_replay"), "--list"], capture_output=True, text=True).stdout.split()
        hs += [h for h in out if h.startswith(a[:-1])]
    else: hs.append(a)
t0 = time.time()
r, dt = kani_run.run_harnesses(hs, timeout_s=timeout, jobs=jobs)
for k, v in r.items():
    print("%-28s %-10s checks=%-5s t=%-7s %s %s" % (k, v["status"], v["checks"], v["time_s"], v["reason"] or "", "; ".join(c["description"] for c in v["failed_checks"])[:300]))
print("wall %.0fs" % (time.time() - t0))
