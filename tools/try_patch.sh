#!/bin/bash
# usage: try_patch.sh <patch.diff> <ID> [tier]   — apply a patch to /repo, run the check, undo.
set -u
P="$1"; ID="$2"; TIER="${3:-quick}"
cd /repo || exit 9
if ! git diff --quiet; then echo "/repo has uncommitted changes; refusing"; exit 9; fi
git apply "$P" || { echo "patch does not apply"; exit 9; }
trap 'git -C /repo checkout -- . ' EXIT
cd /verif && ./check "$ID" --tier "$TIER"
echo "exit=$?"
