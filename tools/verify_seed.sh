#!/bin/bash
# usage: verify_seed.sh <worktree> <ID_k>   — confirm a seeded change independently:
#   (1) both test suites pass with the change, (2) the demo fails with it, (3) the demo passes without it
W="$1"; K="$2"; cd "$W" || exit 9
export CARGO_TARGET_DIR="$W/target" CARGO_NET_OFFLINE=true
git checkout -q -- src; rm -f tests/demo_*.rs
P="out/$K.patch.diff"; D="out/${K}_demo.rs"
[ -f "$P" ] && [ -f "$D" ] || { echo "$K missing files"; exit 9; }
git apply --check "$P" || { echo "$K patch does not apply"; exit 9; }
git apply "$P"
t1=$(cargo test --workspace --no-fail-fast --offline 2>&1 | grep -E "^test result" | grep -vc " 0 failed"); 
t2=$(cargo test --offline --features value,partial 2>&1 | grep -E "^test result|error(\[|:)" | grep -vc " 0 failed")
cp "$D" tests/demo_$K.rs
cargo test --offline --features value,partial --test demo_$K > out/$K.with.log 2>&1; with=$?
git checkout -q -- src
cargo test --offline --features value,partial --test demo_$K > out/$K.without.log 2>&1; without=$?
rm -f tests/demo_$K.rs
echo "$K suites_failing_groups=$t1/$t2 demo_with_change_exit=$with demo_without_change_exit=$without"
